"""C19 — output is a function of the input alone.

PROOF part (lean/LedgerModel/Props/C19.lean): order-independence — no
enumeration order of a hash map / address-ordered map reaches an output.  Every
unordered or pointer-keyed container of src/ is re-extracted on every run
(tools/extract_ordersources.py -> Gen/OrderSources.lean, Gen/OrderSourceFns.lean,
pinned by C19.containers_pinned / walks_pinned / fns_pinned); every consumer is
modelled as a function of the enumeration and proved order-free, or — for the
five consumers that do leak — the negation is proved on a witness together
with what stays order-free.

RUNTIME part (EXERCISED, not proved): reads of uninitialised memory, heap-layout
and wall-clock dependence cannot be exhibited by a model.  Generated journals x
commands are executed under address-space randomisation on/off, allocator
perturbations (MALLOC_PERTURB_, mmap threshold 0 = reversed address order,
tcache/fastbin tunables, arena/top-pad), padded and empty environments and
different working directories; sha256(stdout, stderr, status) must agree
(only the documented xml object ids are masked).  A difference is localised to
the container and reported with (journal, command, two environments, two
outputs) as the replay.

Correspondence: the model's executable consumers (driver ops os.*) are run with
the enumeration order OBSERVED on the binary and must reproduce its rows /
lines / answers exactly; where the model says the order matters, the binary's
answer has to be one of the model's answers over all enumerations.
"""
import os, sys, re, json, hashlib, subprocess, tempfile, shutil, itertools, random
from fractions import Fraction
import xml.etree.ElementTree as ET
import vflib
from vflib import Check
import jgen

MANIFEST = dict(
    text="PROOF of order-independence + runtime part EXERCISED. Machine-checked (Lean 4): every std::map/std::set/unordered_map of "
         "src/ whose key is a pointer or whose order is unspecified is re-extracted on every run and pinned (C19.containers_pinned, "
         "C19.walks_pinned, C19.fns_pinned); each consumer is a function of the container's enumeration order and is proved independent "
         "of it for all balances / maps, no size bound (sortedAmounts_perm, printBalance_perm, balance_den_perm, finalize_order_free, "
         "subtotal_order_free, gt_balance_order_free, sortBy_key_perm). Six consumers of the pinned tree leaked the order; for each the "
         "negation is proved on a concrete witness (…_order_leaks, stated for the OLD form) with what stays order-free. Five of them "
         "(put_balance, top_amount, collapse_posts totals map, posts_commodities_iterator, `balance < amount`) are repaired in /repo: "
         "their form is read from the source on every run, C19.put_balance_fixed / top_amount_fixed / collapse_totals_fixed / "
         "prices_set_fixed / lt_balance_sorted_flag are obligations that the repaired form is present, and xml_balance_order_free / "
         "top_amount_order_free / collapse_order_free / prices_order_free / lt_balance_order_free follow unconditionally; "
         "strip_annotations merging lots remains (known finding), as does the error text of average_lot_prices (found and localised "
         "by the runtime part only). compare_by_commodity's mirrored lot branches are read from the source and proved antisymmetric. Uninitialised reads, heap-layout and wall-clock dependence cannot be exhibited by a model: they are only EXERCISED - "
         "generated journals x commands are run under setarch -R on/off, MALLOC_PERTURB_, MALLOC_MMAP_THRESHOLD_=0 (reversed heap "
         "order), tcache/fastbin/arena tunables, padded and empty environments and different working directories, and sha256 of "
         "stdout+stderr+status must be identical (only the documented xml ids masked); a difference is localised to the container and "
         "reported with journal, command, the two environments and outputs.",
    note="Claim level: proof for order-independence of the modelled consumers; the runtime half (no uninitialised read, no clock or "
         "layout dependence) is exercised by repeated perturbed executions, not proved. Trusted: the extractor's container/walk "
         "inventory (regex over declarations and typedefs), the hand classification of each walk in Model/OrderSourcesPinned.lean, "
         "commodity_t::compare_by_commodity is a total order on the distinct commodities of one balance (proved for unannotated "
         "symbols; body pinned), std::stable_sort/std::map are sorted containers, glibc malloc tunables really change the layout "
         "(measured: the known leaks flip under them). Genuine findings reported by this check on the pinned tree: reg --collapse "
         "--depth N row order (filters.h:431, fixed c8b647e), xml <amount> order (balance.cc:375-379, fixed 36e5f68), prices/pricedb "
         "group order (iterators.cc:141, fixed fc0aedd), top_amount (report.cc:517-521, fixed c1ef985), `balance < amount` "
         "(value.cc:965-975, fixed 89c0598) - any of these five is reported as a violation again if it returns; still present and "
         "listed as known findings: rounded/unrounded rendering of a total holding two lots of one commodity (balance.cc:263-271 "
         "strip_annotations), error text of --average-lot-prices with lot prices in two commodities (balance.cc:389-410); latent, not exhibitable with libstdc++: "
         "finalize's two-commodity branch with a zero-amount top posting of a third commodity (C19.finalize_zero_top_order_leaks).",
    technique="Lean 4 proof of permutation-invariance of every consumer of an unordered/address-ordered container + regenerated "
              "container inventory + differential model/binary check with the observed enumeration + perturbed repeated executions",
    ref="DESIGN.md §5 C19")

NOW = "2021/06/01"
LEDGER = vflib.LEDGER

# ---------------------------------------------------------------------------
# environments


def _tunables(s):
    return {"GLIBC_TUNABLES": s}


_SETARCH = None


def setarch_prefix():
    """`setarch <arch> -R` when it works here (ASLR off), else None."""
    global _SETARCH
    if _SETARCH is None:
        arch = os.uname().machine
        try:
            r = subprocess.run(["setarch", arch, "-R", "true"], stdout=subprocess.DEVNULL, stderr=subprocess.DEVNULL, timeout=10)
            _SETARCH = ["setarch", arch, "-R"] if r.returncode == 0 else []
        except Exception:
            _SETARCH = []
    return _SETARCH or None


def environments(deep_dir):
    base = {"PATH": "/usr/bin:/bin", "HOME": "/nonexistent", "TZ": "UTC", "LC_ALL": "C"}

    def E(name, extra=None, prefix=None, cwd=None, env=None):
        e = dict(base if env is None else env)
        e.update(extra or {})
        return {"name": name, "env": e, "prefix": prefix or [], "cwd": cwd}
    envs = [E("base")]
    sa = setarch_prefix()
    if sa:
        envs.append(E("noaslr", prefix=sa))
        envs.append(E("noaslr-perturb90", {"MALLOC_PERTURB_": "90"}, prefix=sa))
    envs += [
        E("perturb165", {"MALLOC_PERTURB_": "165"}),
        E("mmap0", {"MALLOC_MMAP_THRESHOLD_": "0", "MALLOC_MMAP_MAX_": "10000000"}),
        E("mmap256", {"MALLOC_MMAP_THRESHOLD_": "256", "MALLOC_MMAP_MAX_": "10000000"}),
        E("arena1-toppad", {"MALLOC_ARENA_MAX": "1", "MALLOC_TOP_PAD_": "1", "MALLOC_TRIM_THRESHOLD_": "0"}),
        E("tcache0", _tunables("glibc.malloc.tcache_count=0")),
        E("tcache0-fast0", _tunables("glibc.malloc.tcache_count=0:glibc.malloc.mxfast=0")),
        E("padenv6k", {"VERIF_PAD_%02d" % i: "x" * 150 for i in range(40)}),
        E("envi", env={"TZ": "UTC", "LC_ALL": "C"}),          # env -i, keeping only the two settings
        E("cwd-root", cwd="/"),
        E("cwd-deep", cwd=deep_dir),
    ]
    return envs


ID_RE = re.compile(rb' (id|ref)="[0-9a-fA-F]+"')


def observe(args, env, journal_path=None, timeout=60):
    """Run ledger once in the given environment; returns dict(rc, out, err) (bytes)."""
    argv = list(env["prefix"]) + [LEDGER, "--args-only"]
    if journal_path:
        argv += ["-f", journal_path]
    argv += ["--now", NOW] + list(args)
    import time
    for attempt in range(4):
        try:
            r = subprocess.run(argv, stdin=subprocess.DEVNULL, stdout=subprocess.PIPE, stderr=subprocess.PIPE,
                               env=env["env"], cwd=env["cwd"], timeout=timeout)
            return {"rc": r.returncode, "out": r.stdout, "err": r.stderr}
        except subprocess.TimeoutExpired:
            if attempt >= 1:
                break
        except OSError:
            time.sleep(2.0)          # the shared binary is being relinked by a concurrent check
    return {"rc": None, "out": b"", "err": b"timeout"}


def snapshot_binary(workdir):
    """Private copy of the rebuilt binary: a concurrent check may relink the shared one from a changed /repo half-way
    through a sweep, and two executions of DIFFERENT binaries must never be compared."""
    global LEDGER
    import time
    dst = os.path.join(workdir, "ledger")
    for attempt in range(10):
        try:
            shutil.copy2(vflib.LEDGER, dst)
            r = subprocess.run([dst, "--version"], stdout=subprocess.PIPE, stderr=subprocess.PIPE, timeout=30)
            if r.returncode == 0:
                LEDGER = dst
                return True
        except (OSError, subprocess.TimeoutExpired):
            pass
        time.sleep(3.0)
    return False


def canon(args, ob):
    out = ob["out"]
    if args and args[0] == "xml":
        out = ID_RE.sub(b"", out)          # the documented object identifiers of xml output
    return out


def digest(args, ob):
    h = hashlib.sha256()
    h.update(canon(args, ob))
    h.update(b"\0")
    h.update(ob["err"])
    h.update(b"\0%r" % (ob["rc"],))
    return h.hexdigest()


# ---------------------------------------------------------------------------
# localisation of a difference


def canon_xml_sorted(out):
    try:
        root = ET.fromstring(ID_RE.sub(b"", out))
    except ET.ParseError:
        return None
    for el in root.iter():
        if el.text is not None and not el.text.strip():
            el.text = None
        if el.tail is not None and not el.tail.strip():
            el.tail = None
    for bal in root.iter("balance"):
        kids = list(bal)
        for k in kids:
            bal.remove(k)
        kids.sort(key=lambda a: ET.tostring(a))
        for k in kids:
            bal.append(k)
    return ET.tostring(root)


COMPARATOR_FP = ("C19:commodity.cc:compare_by_commodity",
                 "the same lots in a different order: the lots of one balance are listed in unordered_map order, i.e. "
                 "commodity_t::compare_by_commodity (commodity.cc:389-520) does not order them totally, so balance_t::sorted_amounts "
                 "(balance.cc:273-283) keeps the hash order for them")
LOT_TOKEN = re.compile(rb"-?[0-9][0-9,.]* [^\s{}\[\]()]+(?: \{[^}]*\})?(?: \[[^\]]*\])?(?: \([^()]*\))?")


def localise(args, jpath, ea, eb, oa, ob):
    """(fingerprint, explanation) for two differing observations of the same command."""
    if oa["rc"] is None or ob["rc"] is None:
        return "C19:timeout:" + args[0], "one execution did not finish within the time limit"
    if oa["rc"] != ob["rc"] and (oa["rc"] is not None and oa["rc"] < 0 or ob["rc"] is not None and ob["rc"] < 0):
        return "C19:signal:" + args[0], "one execution died on a signal (%s vs %s)" % (oa["rc"], ob["rc"])
    cmd = args[0]
    if cmd == "xml":
        ca, cb = canon_xml_sorted(oa["out"]), canon_xml_sorted(ob["out"])
        if ca is not None and ca == cb and oa["err"] == ob["err"] and oa["rc"] == ob["rc"] \
                and gen_flags().get("putBalanceSorted") == "true" and b"<annotation>" in oa["out"]:
            return COMPARATOR_FP           # put_balance walks sorted_amounts: a reordering of lots is the comparator's
        if ca is not None and ca == cb and oa["err"] == ob["err"] and oa["rc"] == ob["rc"]:
            return ("C19:balance.cc:put_balance",
                    "ledger xml lists the <amount> elements of a multi-commodity <balance> in unordered_map order "
                    "(balance.cc:375-379 put_balance walks bal.amounts unsorted)")
    if cmd in ("reg", "register") and "--collapse" in args and "--depth" in args:
        fmt = ["--format", "%(date)|%(payee)|%(account)|%(verif_rational(amount))\n"]
        a2 = observe(args + fmt, ea, jpath)
        b2 = observe(args + fmt, eb, jpath)
        if sorted(a2["out"].split(b"\n")) == sorted(b2["out"].split(b"\n")) and a2["out"] != b2["out"]:
            return ("C19:filters.h:collapse-totals-map",
                    "reg --collapse --depth N emits the rows of one transaction in account_t* address order "
                    "(filters.h:431 std::map<account_t*,value_t> totals, walked at filters.cc:440)")
    if cmd in LISTING and oa["err"] == ob["err"] and oa["rc"] == ob["rc"] \
            and sorted(oa["out"].split(b"\n")) == sorted(ob["out"].split(b"\n")):
        return LISTING[cmd]
    if cmd in ("prices", "pricedb"):
        if sorted(oa["out"].split(b"\n")) == sorted(ob["out"].split(b"\n")) and oa["err"] == ob["err"]:
            return ("C19:iterators.cc:posts_commodities-set",
                    "prices/pricedb emit the commodities' price histories in commodity_t* address order "
                    "(iterators.cc:141 std::set<commodity_t*> in posts_commodities_iterator::reset)")
    if oa["rc"] == ob["rc"] and oa["err"] == ob["err"] and rounded_variants(oa["out"], ob["out"]):
        return ("C19:balance.cc:strip_annotations-keep-precision",
                "the same amount is printed rounded in one environment and unrounded in the other: balance_t::strip_annotations "
                "(balance.cc:263-271, used by scrub in every default format) merges the lots of one commodity in unordered_map order and "
                "the merged amount keeps the keep_precision flag of the first lot")
    if sorted(canon(args, oa).split(b"\n")) == sorted(canon(args, ob).split(b"\n")) and oa["err"] == ob["err"] and oa["rc"] == ob["rc"] \
            and any(x in args for x in ("--lots", "--lot-prices", "--lot-dates", "--lot-notes", "print", "xml", "equity")) \
            and (b"{" in oa["out"] or b"<annotation>" in oa["out"]):
        return COMPARATOR_FP
    if "--average-lot-prices" in args and b"Adding amounts with different commodities" in oa["err"] + ob["err"]:
        return ("C19:balance.cc:average_lot_prices",
                "average_lot_prices adds the lot prices of one symbol in unordered_map order; when they are in different commodities "
                "the error text names whichever pair comes first (balance.cc:389-410)")
    if cmd == "eval":
        expr = args[-1]
        if "top_amount" in expr:
            return ("C19:report.cc:top_amount",
                    "top_amount(balance) returns *amounts.begin() of the unordered_map (report.cc:517-521)")
        if re.search(r"\)\s*(<=|>=|<|>)|(<=|>=|<|>)\s*\(", expr):
            return ("C19:value.cc:lt-balance",
                    "balance < amount walks the unordered_map and stops at the first deciding component, so it answers or throws "
                    "'different commodities' depending on hash order (value.cc:965-975 is_less_than, BALANCE row)")
    if cmd in ("bal", "balance", "equity", "print") and oa["err"] == ob["err"] and oa["rc"] == ob["rc"] \
            and (b"{" in oa["out"] or b" [" in oa["out"] or b" (" in oa["out"]) \
            and sorted(LOT_TOKEN.findall(oa["out"])) == sorted(LOT_TOKEN.findall(ob["out"])):
        return COMPARATOR_FP
    if jpath and (b"{" in oa["out"] or b" [" in oa["out"] or b"<annotation>" in oa["out"]):
        # lots are involved: probe the plainest lot listing under the same two environments
        pa = observe(["bal", "--lots", "--flat", "--no-total"], ea, jpath)
        pb = observe(["bal", "--lots", "--flat", "--no-total"], eb, jpath)
        if pa["out"] != pb["out"] and sorted(LOT_TOKEN.findall(pa["out"])) == sorted(LOT_TOKEN.findall(pb["out"])):
            return COMPARATOR_FP
    return "C19:other:" + cmd, "outputs differ between two environments and the difference is not one of the known container leaks"


NUM_RE = re.compile(rb"-?[0-9][0-9,]*(?:\.[0-9]+)?")


def rounded_variants(a, b):
    """True when the two outputs are equal except for numbers that are the same quantity shown at two precisions."""
    if a == b:
        return False
    if NUM_RE.sub(b"#", re.sub(rb"[ \t]+", b" ", a)) != NUM_RE.sub(b"#", re.sub(rb"[ \t]+", b" ", b)):
        return False
    na, nb = NUM_RE.findall(a), NUM_RE.findall(b)
    if len(na) != len(nb):
        return False
    differing = 0
    for x, y in zip(na, nb):
        if x == y:
            continue
        differing += 1
        fx, fy = Fraction(x.decode().replace(",", "")), Fraction(y.decode().replace(",", ""))
        dx = len(x.split(b".")[1]) if b"." in x else 0
        dy = len(y.split(b".")[1]) if b"." in y else 0
        if dx == dy:
            return False
        lo, hi, d = (fx, fy, dx) if dx < dy else (fy, fx, dy)
        if abs(hi - lo) > Fraction(1, 10 ** d):          # the shorter one is the longer one rounded (or truncated) at d decimals
            return False
    return differing > 0


def text(b, cap=6000):
    s = b.decode("utf-8", "replace")
    return s if len(s) <= cap else s[:cap] + "\n…[%d bytes]" % len(b)


def udiff(a, b, cap=120):
    import difflib
    d = list(difflib.unified_diff(a.decode("utf-8", "replace").split("\n"), b.decode("utf-8", "replace").split("\n"),
                                  "envA", "envB", lineterm="", n=2))
    return d[:cap]


def severity(args, obs, envs):
    """2: exit status differs, 1: stdout differs, 0: only stderr differs / nothing."""
    rcs = {obs[e["name"]]["rc"] for e in envs}
    if len(rcs) > 1:
        return 2
    return 1 if len({canon(args, obs[e["name"]]) for e in envs}) > 1 else 0


def env_public(e):
    return {"name": e["name"], "env": e["env"], "prefix": e["prefix"], "cwd": e["cwd"]}


# ---------------------------------------------------------------------------
# the sweep: one case = (journal text or None, args); all environments


class Sweep:
    def __init__(self, ctx, envs, workdir):
        self.ctx, self.envs, self.workdir = ctx, envs, workdir
        self.n = 0
        self.reported = set()

    def path_for(self, jtext):
        if jtext is None:
            return None
        if isinstance(jtext, str):
            jtext = jtext.encode("utf-8")
        p = os.path.join(self.workdir, "j%s.dat" % hashlib.sha1(jtext).hexdigest()[:12])
        if not os.path.exists(p):
            with open(p, "wb") as f:
                f.write(jtext)
        return p

    def run_cases(self, cases, envs=None):
        """cases: list of (jtext|None, args, meta).  Returns list of per-case {env name: observation}."""
        envs = envs or self.envs
        jobs = []
        for ci, (jt, args, meta) in enumerate(cases):
            p = self.path_for(jt)
            for e in envs:
                jobs.append((ci, p, args, e))
        res = vflib.pmap(lambda j: observe(j[2], j[3], j[1]), jobs)
        out = [dict() for _ in cases]
        for (ci, p, args, e), ob in zip(jobs, res):
            out[ci][e["name"]] = ob
            self.ctx.count()
        return out

    def judge(self, case, obs, envs=None, shrinker=None):
        """Oracle: all observations of one case must agree.  Returns True when they do."""
        envs = envs or self.envs
        jt, args, meta = case
        ds = {e["name"]: digest(args, obs[e["name"]]) for e in envs}
        if len(set(ds.values())) == 1:
            return True
        ref = envs[0]
        other = next(e for e in envs if ds[e["name"]] != ds[ref["name"]])
        jpath = self.path_for(jt)
        fp, why = localise(args, jpath, ref, other, obs[ref["name"]], obs[other["name"]])
        self.ctx.feature("diff:" + fp)
        if fp in self.reported:
            return False
        self.reported.add(fp)
        if fp.startswith("C19:timeout"):
            self.ctx.feature("timeout-inconclusive")
            return False
        if shrinker and jt is not None:
            jt = shrinker(jt, args, ref, other)
            obs = {ref["name"]: observe(args, ref, self.path_for(jt)), other["name"]: observe(args, other, self.path_for(jt))}
        groups = {}
        for k, v in ds.items():
            groups.setdefault(v, []).append(k)
        replay = {"kind": "diff", "journal": jt if (jt is None or isinstance(jt, str)) else jt.decode("utf-8", "replace"),
                  "args": args, "envA": env_public(ref), "envB": env_public(other),
                  "outA": {"rc": obs[ref["name"]]["rc"], "stdout": text(canon(args, obs[ref["name"]]), 2500), "stderr": text(obs[ref["name"]]["err"])},
                  "outB": {"rc": obs[other["name"]]["rc"], "stdout": text(canon(args, obs[other["name"]]), 2500), "stderr": text(obs[other["name"]]["err"])},
                  "diff": udiff(canon(args, obs[ref["name"]]) + b"\n--stderr--\n" + obs[ref["name"]]["err"],
                                canon(args, obs[other["name"]]) + b"\n--stderr--\n" + obs[other["name"]]["err"]),
                  "agreeing_groups": sorted(groups.values(), key=len, reverse=True),
                  "how": "ledger --args-only [-f journal] --now %s %s   under envA / envB" % (NOW, " ".join(args)),
                  "meta": meta}
        self.ctx.violation(fp, why + "; `%s` differs between environments %s and %s" % (" ".join(args), ref["name"], other["name"]), replay)
        return False


def shrink_journal_text(jtext, args, ea, eb, sweep):
    """Greedy removal of blank-line separated blocks while envA and envB still disagree."""
    if isinstance(jtext, bytes):
        return jtext
    blocks = [b for b in jtext.split("\n\n") if b.strip()]

    def differs(bl):
        t = "\n\n".join(bl) + "\n"
        p = sweep.path_for(t)
        a = observe(args, ea, p)
        b = observe(args, eb, p)
        return a["rc"] is not None and b["rc"] is not None and digest(args, a) != digest(args, b)
    if not differs(blocks):
        return jtext
    changed = True
    rounds = 0
    while changed and rounds < 3 and len(blocks) > 1:
        changed = False
        rounds += 1
        i = 0
        while i < len(blocks) and len(blocks) > 1:
            cand = blocks[:i] + blocks[i + 1:]
            if differs(cand):
                blocks = cand
                changed = True
            else:
                i += 1
    return "\n\n".join(blocks) + "\n"


# ---------------------------------------------------------------------------
# generators

POOL = [jgen.Commodity("AAA", 0), jgen.Commodity("EUR", 2), jgen.Commodity("MMM", 1), jgen.Commodity("ZZZ", 3),
        jgen.Commodity("QQ", 2), jgen.Commodity("BTC", 8), jgen.Commodity("XY", 4, thousands=True), jgen.Commodity("KK", 0),
        jgen.Commodity("$", 2, prefix=True, space=False, thousands=True), jgen.Commodity("£", 2, prefix=True, space=False),
        jgen.Commodity("abc", 2), jgen.Commodity("Zz", 1)]

ACCOUNT_SETS = [
    None,
    ["Assets:Bank:Checking", "Assets:Bank:Savings", "Assets:Broker:Lots", "Assets:Cash", "Expenses:Food:Out:Lunch",
     "Expenses:Food:Groceries", "Expenses:Rent", "Income:Salary:Base", "Income:Salary:Bonus", "Liabilities:Card:Visa",
     "Liabilities:Loan", "Equity:Opening", "Zeta", "alpha:beta"],
    ["A", "B:C", "B:D:E", "B:D:F", "G:H", "I"],
]


def gen_journal(rng, simple=False):
    k = rng.randint(3, 9)
    comms = rng.sample(POOL, k)
    accounts = rng.choice(ACCOUNT_SETS)
    if simple:
        g = jgen.Gen(rng, comms=comms, accounts=accounts, p_virtual=0, p_bvirtual=0, p_cost=0, p_elide=0, p_multi=0.7, p_aux=0,
                     magnitudes=[10, 1000, 10 ** 6])
        xs = []
        while len(xs) < rng.randint(4, 14):
            x = g.xact()
            if all(p["amount"] is not None for p in x["posts"]):
                xs.append(x)
        xs.sort(key=lambda x: x["date"])
        for i, x in enumerate(xs):
            x["payee"] = "x%03d" % i
        j = {"xacts": xs}
    else:
        g = jgen.Gen(rng, comms=comms, accounts=accounts, p_multi=0.6, p_cost=0.25)
        j = g.journal(rng.randint(5, 28))
    return j, comms


def lots_journal(rng):
    """Purchases and sales of lots (annotated commodities): balances hold several annotated commodities of one symbol."""
    syms = rng.sample(["AAPL", "BTC", "VTI", "XAU", "MMM"], rng.randint(2, 4))
    lines = []
    d = jgen.day_of(2020, 1, 1)
    for i in range(rng.randint(4, 12)):
        d += rng.randint(1, 20)
        s = rng.choice(syms)
        n = rng.randint(1, 50)
        price = Fraction(rng.randint(100, 99999), 100)
        cur = rng.choice(["$", "$", "EUR"])
        ptxt = ("$%s" % jgen.fmt_amount(price, jgen.Commodity("", 2))) if cur == "$" else ("%s EUR" % jgen.fmt_amount(price, jgen.Commodity("", 2)))
        lines.append("%s buy %d" % (jgen.date_text(d), i))
        lines.append("    Assets:Broker:%s   %d %s {%s} [%s]" % (rng.choice(["One", "Two"]), n, s, ptxt, jgen.date_text(d)))
        lines.append("    Assets:Cash")
        lines.append("")
    return "\n".join(lines) + "\n"


def lot_heavy_journal(rng, with_exprs=False):
    """One account accumulating 4-10 lots of ONE commodity whose annotations combine few prices, few dates and
    no / one of two tags, always including pairs that are equal in price and date and differ only in the presence
    of a (tag), in the presence of a [date] or of the {price} - the pairs on which a comparator that is not
    antisymmetric leaves the order to the hash map.  Returns (text, [lot dicts in journal order])."""
    sym = rng.choice(["AAA", "BTC", "VTI"])
    prices = rng.sample([1, 2, 5, 7, 12], rng.randint(1, 3))
    dates = rng.sample([jgen.day_of(2020, 1, 1), jgen.day_of(2020, 1, 2), jgen.day_of(2020, 3, 15)], rng.randint(1, 2))
    lots, seen = [], set()

    def add(price, date, tag, expr=None):
        k = (price, date, tag, expr)
        if k in seen or (price is None and date is None and tag is None and expr is None):
            return
        seen.add(k)
        lots.append({"price": price, "date": date, "tag": tag, "expr": expr})
    # the pairs
    for _ in range(rng.randint(2, 4)):
        p, d = rng.choice(prices), rng.choice(dates)
        kind = rng.choice(["tag", "tag", "tag", "date", "price"])
        if kind == "tag":
            add(p, d, None)
            add(p, d, rng.choice(["t", "u"]))
        elif kind == "date":
            t = rng.choice([None, "t"])
            add(p, None, t)
            add(p, d, t)
        else:
            t = rng.choice([None, "t"])
            add(None, d, t)
            add(p, d, t)
    while len(lots) < rng.randint(4, 10):
        add(rng.choice(prices + [None]), rng.choice(dates + [None]), rng.choice([None, None, "t", "u"]),
            rng.choice([None, "amount * 2", "amount * 3"]) if with_exprs else None)
    rng.shuffle(lots)
    # spread over 1-3 transactions with different payees; some postings carry tags (payees / tags reports)
    ngroups = rng.randint(1, 3)
    lines = []
    for gi in range(ngroups):
        part = lots[gi::ngroups]
        if not part:
            continue
        lines.append("%s buy %s" % (jgen.date_text(jgen.day_of(2020, 4, 1) + gi), ["one", "two", "three"][gi]))
        for l in part:
            q = rng.randint(1, 9)
            l["q"] = q
            a = "%d %s" % (q, sym)
            if l["price"] is not None:
                a += " {$%d.00}" % l["price"]
            if l["date"] is not None:
                a += " [%s]" % jgen.date_text(l["date"])
            if l["tag"] is not None:
                a += " (%s)" % l["tag"]
            if l["expr"] is not None:
                a += " ((%s))" % l["expr"]
            note = rng.choice(["", "", "  ; :lot:", "  ; :held:lot:", "  ; kind: %s" % rng.choice(["x", "y"])])
            lines.append("    Assets:Broker   %s%s" % (a, note))
        lines += ["    Equity:Opening", ""]
    lines += ["%s other" % jgen.date_text(jgen.day_of(2020, 5, 1)), "    Assets:Cash   10.00 EUR", "    Income:Job", ""]
    return "\n".join(lines) + "\n", lots, sym


LOT_COMMANDS = ["bal --lots", "bal --lot-prices", "bal --lot-dates --lot-notes", "reg --lots", "reg --lots --wide", "print", "xml",
                "equity --lots", "bal --lots --flat", "bal",
                # listing commands (maps keyed by a pointer with a comparator, output.h) with and without the lot options
                "commodities", "commodities --lots", "commodities --lot-prices", "commodities --lots --count", "accounts", "accounts --lots",
                "accounts --count", "payees", "payees --lots", "tags", "tags --lots", "reg --by-payee --lots", "reg --group-by payee --lots",
                "reg --group-by commodity --lots", "bal --group-by commodity --lots", "reg --subtotal --lots", "reg --collapse --lots",
                "reg --collapse --depth 1 --lots", "prices", "pricedb", "csv --lots", "emacs"]
LISTING = {"commodities": ("C19:commodity.h:commodity_compare",
                           "the `commodities` report lists entries with the same symbol (the lots of one commodity) in a different order: "
                           "its std::map<commodity_t*, size_t, commodity_compare> (output.h:227) falls back to heap-address order, i.e. "
                           "commodity_compare (commodity.h:294) does not compare by symbol only"),
           "accounts": ("C19:account.h:account_compare",
                        "the `accounts` report lists the same accounts in a different order: std::map<account_t*, size_t, account_compare> "
                        "(output.h:146) is not ordered by full name only"),
           "payees": ("C19:output.h:payees-map", "the `payees` report lists the same payees in a different order (output.h:172)"),
           "tags": ("C19:output.h:tags-map", "the `tags` report lists the same tags in a different order (output.h:198)")}

LOT_LINE = re.compile(r"^\s*(-?[0-9][0-9,.]*) (\S+)(?: \{\$([0-9.,]+)\})?(?: \[(\d{4}/\d\d/\d\d)\])?(?: \(([^()]*)\))?(?: \(\((.*)\)\))?\s*$")


def lot_order_oracle(ctx, sweep, jtext, lots, sym):
    """Implementation-side oracle, independent of the Lean model: `bal --lots` of the account lists the lots in
    THE order of compare_by_commodity re-stated in Python (price absent < present, by price; date absent < present,
    by date; tag absent < present, by tag) - a total order, so any other order shows a comparator that is not one."""
    if any(l["expr"] for l in lots):
        return
    args = ["bal", "--lots", "Assets:Broker", "--no-total", "--format", "%(display_total)\n"]
    o = observe(args, sweep.envs[0], sweep.path_for(jtext))
    ctx.count()
    got = []
    for line in o["out"].decode("utf-8", "replace").split("\n"):
        m = LOT_LINE.match(line)
        if m and m.group(2) == sym:
            got.append((Fraction(m.group(3).replace(",", "")) if m.group(3) else None, m.group(4), m.group(5)))

    def key(l):
        p, d, t = l
        return ((0,) if p is None else (1, p), (0,) if d is None else (1, d), (0,) if t is None else (1, t))
    want = sorted(((Fraction(l["price"]) if l["price"] is not None else None,
                    jgen.date_text(l["date"]) if l["date"] is not None else None, l["tag"]) for l in lots), key=key)
    if sorted(got, key=key) != want:
        ctx.feature("lots:unparsed")           # the reader of this oracle did not understand the output: no verdict
        return
    ctx.traces_validated += 1
    if got != want:
        ctx.violation("C19:commodity.cc:compare_by_commodity",
                      "the lots of one balance are not printed in the total order of compare_by_commodity (symbol, price, date, tag; "
                      "absent before present): sorted_amounts leaves them in unordered_map order wherever the comparator is not a "
                      "strict weak order",
                      {"kind": "single", "journal": jtext, "args": args, "stdout": text(o["out"]),
                       "printed": [str(x) for x in got], "expected": [str(x) for x in want]})


def zero_top_journal(rng):
    """finalize's excluded point: a zero-amount top posting of a third commodity before a two-commodity transaction."""
    c = rng.sample(["AAA", "EUR", "USD", "MMM", "QQ"], 3)
    a, b = rng.randint(1, 900), rng.randint(1, 900)
    lines = ["2020/01/01 zero top", "    A   0 %s" % c[0], "    B   %d.00 %s" % (a, c[1]), "    C   -%d.00 %s" % (b, c[2]), "",
             "2020/02/01 plain", "    B   %d.00 %s" % (b, c[1]), "    D   -%d.00 %s" % (a, c[2]), "    E   -1.00 %s" % c[2], ""]
    return "\n".join(lines) + "\n"


MALFORMED = [
    "2020/01/01 unbalanced\n    A   $1.00\n    B   $-2.00\n\n2020/01/02 ok\n    A  $1\n    B\n",
    "2020/13/45 bad date\n    A   $1.00\n    B\n",
    "2020/01/01 two nulls\n    A\n    B\n",
    "frobnicate this\n2020/01/01 x\n    A  1 AAA\n    B\n",
    "2020/01/01 x\n    A  1 AAA @\n    B\n",
    "2020/01/01 x\n    A  (1 AAA\n    B\n",
    b"2020/01/01 x\xff\xfe\n    A  1 AAA\n    B  -1 A\xc3\n",
    "2020/01/01 assert\n    A  $1 = $5\n    B\n",
    "",
]

COMMANDS = [
    "bal", "bal --flat", "bal --empty --no-total", "bal --depth 1", "reg", "reg --empty --wide", "reg --collapse",
    "reg --collapse --depth 1", "reg --collapse --depth 2", "reg --subtotal", "reg -M", "reg --by-payee", "reg --dow",
    "print", "print --raw", "equity", "xml", "csv", "emacs", "prices", "pricedb", "accounts", "payees", "commodities", "stats",
    "bal -V", "bal -B", "reg -V", "reg -G", "reg --sort amount", "bal --sort total", "reg --related", "reg --average",
    "bal --lots", "cleared", "reg --group-by payee", "bal --pivot payee", "bal --average-lot-prices", "reg --group-by commodity",
    "bal -X EUR,AAA", "reg --exchange EUR", "bal --lot-dates", "reg --lots --wide", "equity --lots", "bal --unround", "reg --deviation",
    "commodities --lots", "accounts --lots", "payees --lots", "tags", "reg --by-payee --lots", "reg --group-by payee --lots",
]
QUICK_COMMANDS = [
    "bal", "bal --flat", "reg --empty --wide", "reg --collapse", "reg --collapse --depth 1", "reg --subtotal", "print", "equity",
    "xml", "csv", "emacs", "prices", "stats", "bal -V", "reg --sort amount", "bal --lots", "reg -M", "commodities", "bal --average-lot-prices", "commodities --lots",
    "accounts", "payees", "reg --by-payee",
]

NAMES = ["AAA", "EUR", "USD", "MMM", "ZZZ", "QQ", "KK", "BTC"]


def witness_cases():
    """The candidate defects as deterministic families (corpus, run first).  Heap layout decides which member of a
    family flips, so every member is tried under every environment."""
    cases = []
    j = ("2020/01/01 one\n    Assets:Bank:Checking   10 AAA\n    Assets:Bank:Checking   5.00 EUR\n    Assets:Bank:Checking   $3.00\n"
         "    Assets:Bank:Checking   7 MMM\n    Assets:Bank:Checking   9 ZZZ\n    Equity:Opening\n\n"
         "2020/01/02 two\n    Expenses:Food   $2.00\n    Income:Salary   -4.00 EUR\n    Liabilities:Card  1 AAA\n    Assets:Cash\n")
    cases.append((j, ["reg", "--collapse", "--depth", "1"], {"witness": "DESIGN §9-6"}))
    for k in range(3, 9):
        lines = ["2020/01/01 k%d" % k] + ["    Assets:Bank   %d %s" % (i + 2, NAMES[i]) for i in range(k)] + ["    Equity:Opening", ""]
        cases.append(("\n".join(lines), ["xml"], {"witness": "DESIGN §9-10", "commodities": k}))
    for k in range(3, 8):
        terms = " + ".join("%d %s" % (i + 2, NAMES[i]) for i in range(k))
        for piv in range(k):
            cases.append((None, ["eval", "(%s) < %d %s" % (terms, piv + 2, NAMES[piv])], {"witness": "lt-balance"}))
        cases.append((None, ["eval", "top_amount(%s)" % terms], {"witness": "top_amount"}))
    cases.append((None, ["eval", "2.50 EUR > (2.50 EUR + 3 USD)"], {"witness": "lt-balance (two components: libstdc++ enumerates "
                                                                              "two entries in reverse insertion order whatever the addresses)"}))
    lot = "2020/01/01 lot\n    A   10.00 abc @ 2 BTC\n    B\n"
    for k in range(1, 9):
        extra = " + ".join("1 %s" % n for n in NAMES[:k])
        for terms in ("total + unrounded(2.00 abc / 3)", "unrounded(2.00 abc / 3) + total"):
            cases.append((lot, ["bal", "A", "--format", "%(scrub(" + extra + " + " + terms + "))\n"], {"witness": "strip-keep"}))
    pj = ("P 2020/01/01 AAA 2.00 EUR\nP 2020/01/01 MMM 3.00 EUR\nP 2020/01/01 ZZZ $4.00\nP 2020/02/01 AAA 2.50 EUR\n\n"
          "2020/03/01 p\n    A  1 AAA\n    A  1 MMM\n    A  1 ZZZ\n    A  1.00 EUR\n    B\n")
    cases.append((pj, ["prices"], {"witness": "prices"}))
    cases.append((pj, ["pricedb"], {"witness": "pricedb"}))
    return cases


# ---------------------------------------------------------------------------
# correspondence with the model


def amt_field(q, prec, comm):
    q = Fraction(q)
    return "%d/%d:%d:0:%s" % (q.numerator, q.denominator, prec, comm)


def parse_vr(s):
    """verif_rational answer -> {comm: Fraction} without zero entries."""
    tag, _, rest = s.partition(":")
    d = {}
    if tag == "I":
        if int(rest):
            d[""] = Fraction(int(rest))
        return d
    if tag == "N":
        return d
    parts = [rest] if tag == "A" else ([p for p in rest.split(";") if p] if tag == "B" else None)
    if parts is None:
        return None
    for p in parts:
        q, prec, keep, comm = p.split(":", 3)
        n, dd = q.split("/")
        f = Fraction(int(n), int(dd))
        if f != 0:
            d[comm] = d.get(comm, 0) + f
    return d


def parse_model_bal(s):
    d = {}
    for item in (s.split(",") if s else []):
        c, _, q = item.rpartition("=")
        n, dd = q.split("/")
        d[c] = Fraction(int(n), int(dd))
    return d


def sym_text(name, n):
    return ("$%d" % n) if name == "$" else ("%d %s" % (n, name))


def line_symbol(line):
    t = line.strip()
    if t.startswith("$") or t.startswith("-$") or t.startswith("$-"):
        return "$"
    return t.split(" ")[-1]


def corr_print(ctx, sweep, n):
    """balance_t::print order (os.print) vs `ledger eval (a + b + …)`."""
    rng = ctx.rng
    pool = ["AAA", "EUR", "USD", "MMM", "ZZZ", "QQ", "KK", "aa", "Zz", "BTC", "$", "A1b", "zzz", "Aa"]
    pool = [p for p in pool if p != "A1b"]
    cases, metas = [], []
    for i in range(n):
        k = 1 if i < 3 else rng.randint(2, 7)
        names = rng.sample(pool, k)
        qs = [rng.randint(1, 9999) * rng.choice([1, 1, -1]) for _ in names]
        expr = "(" + " + ".join("(%s)" % sym_text(nm, q) if q < 0 else sym_text(nm, q) for nm, q in zip(names, qs)) + ")"
        expr = expr.replace("($-", "(-$")
        cases.append((None, ["eval", expr], {}))
        metas.append((names, qs))
    envs = [sweep.envs[0]] + rng.sample(sweep.envs[1:], 2)
    obs = sweep.run_cases(cases, envs)
    lines = ["os.print\t" + ",".join("%s=20" % p for p in pool) + "\t" + "\t".join(amt_field(q, 0, nm) for nm, q in zip(names, qs))
             for names, qs in metas]
    model = vflib.driver_run(lines)
    for case, ob, m, (names, qs) in zip(cases, obs, model, metas):
        sweep.judge(case, ob, envs)
        o = ob[envs[0]["name"]]
        got = [line_symbol(l) for l in o["out"].decode().split("\n") if l.strip()]
        want = [f.rpartition("=")[0] for f in m.split("\t")[1:]]
        if got != want:
            ctx.tie_broken("corr:os.print", "balance print order: ledger %r, model %r for %s" % (got, want, case[1][1]))
            ctx.mism.append({"op": "os.print", "expr": case[1][1], "ledger": got, "model": want})
        else:
            ctx.traces_validated += 1
        # oracle (independent of the model): commodities appear in byte order of their symbols
        if got != sorted(got, key=lambda s: s.encode()):
            ctx.violation("C19:balance.cc:sorted_amounts", "a balance is not printed in symbol order: %s -> %r" % (case[1][1], got),
                          {"kind": "single", "args": case[1], "stdout": text(o["out"])})
        if len(names) >= 3:
            ctx.nontrivial(("print", case[1][1]))
        ctx.feature("print:k=%d" % len(names))


CMP_TXT = {"lt": "<", "gt": ">", "le": "<=", "ge": ">="}


def corr_cmp(ctx, sweep, n):
    """(balance) op value: the model is asked under EVERY enumeration of the components and must give one answer, the
    binary must give exactly that answer in every environment (the `<` rows walk sorted_amounts since 89c0598)."""
    rng = ctx.rng
    cases, metas = [], []
    for i in range(n):
        k = rng.choice([1, 2, 2, 3, 3, 3, 4, 4, 5])
        names = rng.sample(NAMES, k)
        qs = [rng.randint(1, 50) * rng.choice([1, 1, 1, -1]) for _ in names]
        op = rng.choice(["lt", "lt", "lt", "gt", "le", "ge"])
        r = rng.random()
        if r < 0.7:
            j = rng.randrange(k)
            rq = qs[j] + rng.choice([-1, 0, 0, 1, 5])     # boundary: equal and off by one unit
            rhs_m, rhs_t = "a:" + amt_field(rq, 0, names[j]), "%d %s" % (rq, names[j])
        elif r < 0.85:
            rq = rng.randint(-5, 60)
            rhs_m, rhs_t = "i:%d" % rq, "%d" % rq
        else:
            nm = rng.choice([x for x in NAMES if x not in names] or NAMES)
            rq = rng.randint(1, 60)
            rhs_m, rhs_t = "a:" + amt_field(rq, 0, nm), "%d %s" % (rq, nm)
        lhs = "(" + " + ".join("(%d %s)" % (q, nm) for nm, q in zip(names, qs)) + ")"
        rhs_txt = "(%s)" % rhs_t
        cases.append((None, ["eval", "%s %s %s" % (lhs, CMP_TXT[op], rhs_txt)], {}))
        metas.append((names, qs, op, rhs_m))
    envs = [sweep.envs[0]] + [e for e in sweep.envs if e["name"] in ("mmap0", "tcache0", "tcache0-fast0", "mmap256")]
    obs = sweep.run_cases(cases, envs)
    lines, spans = [], []
    for names, qs, op, rhs_m in metas:
        perms = list(itertools.permutations(range(len(names))))
        spans.append((len(lines), len(perms)))
        for p in perms:
            lines.append("os.cmp\t%s\t%s\t" % (op, rhs_m) + "\t".join(amt_field(qs[i], 0, names[i]) for i in p))
    model = vflib.driver_run(lines)
    for case, ob, (start, cnt), (names, qs, op, rhs_m) in zip(cases, obs, spans, metas):
        answers = set(model[start:start + cnt])
        stable = sweep.judge(case, ob, envs)
        for e in envs:
            o = ob[e["name"]]
            t = (o["out"] + o["err"]).decode("utf-8", "replace")
            ek = vflib.err_kind(t)
            impl = ("err\t" + ek) if ek else ("ok\t" + o["out"].decode().strip().split("\n")[-1])
            if impl not in answers:
                ctx.tie_broken("corr:os.cmp", "%s: ledger %r (%s), model %r" % (case[1][1], impl, e["name"], sorted(answers)))
                ctx.mism.append({"op": "os.cmp", "expr": case[1][1], "ledger": impl, "model": sorted(answers)})
                break
        else:
            ctx.traces_validated += 1
        if len(answers) > 1:
            # only possible when the source walks the hash map unsorted again (Gen.ltBalanceSorted = false, which also breaks
            # C19.lt_balance_sorted_flag): the model itself is order-dependent and membership is all that can be compared
            ctx.feature("cmp:model-order-dependent")
            ctx.tie_broken("corr:os.cmp:model-order-dependent", "%s: the model answers differently for different enumerations: %r" % (case[1][1], sorted(answers)))
        elif not stable:
            # the model is order-free (one answer for every enumeration) but the binary flipped
            ctx.tie_broken("corr:os.cmp:stability", "%s flips on the binary although the model is order-free" % case[1][1])
        if len(names) >= 2:
            ctx.nontrivial(("cmp", case[1][1]))
        ctx.feature("cmp:" + op)


def corr_top(ctx, sweep, n):
    rng = ctx.rng
    cases, metas = [], []
    for i in range(n):
        k = rng.randint(1, 7)
        names = rng.sample(NAMES, k)
        qs = [rng.randint(1, 50) for _ in names]
        cases.append((None, ["eval", "top_amount(%s)" % " + ".join("%d %s" % (q, nm) for nm, q in zip(names, qs))], {}))
        metas.append((names, qs))
    envs = [sweep.envs[0]] + [e for e in sweep.envs if e["name"] in ("mmap0", "tcache0", "tcache0-fast0")]
    obs = sweep.run_cases(cases, envs)
    lines, spans = [], []
    for names, qs in metas:
        rots = [list(range(len(names)))[i:] + list(range(len(names)))[:i] for i in range(len(names))]
        spans.append((len(lines), len(rots)))
        for p in rots:
            lines.append("os.top\t" + "\t".join(amt_field(qs[i], 0, names[i]) for i in p))
    model = vflib.driver_run(lines)
    for case, ob, (start, cnt), (names, qs) in zip(cases, obs, spans, metas):
        answers = set(a.split("\t")[1].rpartition("=")[0] for a in model[start:start + cnt])
        sweep.judge(case, ob, envs)
        ok = True
        for e in envs:
            got = line_symbol(ob[e["name"]]["out"].decode().strip().split("\n")[-1]) if ob[e["name"]]["out"].strip() else "?"
            if got not in answers:
                ok = False
                ctx.tie_broken("corr:os.top", "%s: ledger %r, model %r" % (case[1][1], got, sorted(answers)))
        if ok:
            ctx.traces_validated += 1
        if len(names) >= 3:
            ctx.nontrivial(("top", case[1][1]))


def corr_strip(ctx, sweep):
    """strip_annotations on a total holding a lot and a keep_precision amount of the same commodity: the rendering
    (rounded / unrounded) has to be one the model gives for some enumeration."""
    lot = "2020/01/01 lot\n    A   10.00 abc @ 2 BTC\n    B\n"
    cases = []
    for k in range(0, 7):
        extra = "".join("1 %s + " % n for n in NAMES[:k])
        for terms in ("total + unrounded(2.00 abc / 3)", "unrounded(2.00 abc / 3) + total"):
            cases.append((lot, ["bal", "A", "--format", "%(scrub(" + extra + terms + "))\n"], {"k": k}))
    envs = [sweep.envs[0]] + [e for e in sweep.envs if e["name"] in ("mmap0", "tcache0", "tcache0-fast0")]
    obs = sweep.run_cases(cases, envs)
    lotf, keepf = amt_field(10, 2, "abc {2 BTC} [2020/01/01]"), "2/3:8:1:abc"
    model = vflib.driver_run(["os.strip\t%s\t%s" % (lotf, keepf), "os.strip\t%s\t%s" % (keepf, lotf)])
    keeps = {m.split("\t")[1].rsplit(":", 1)[1] for m in model}
    qs = {m.split("\t")[1].rsplit(":", 1)[0] for m in model}
    if qs != {"abc=32/3"} or keeps != {"0", "1"}:
        ctx.tie_broken("corr:os.strip", "model of strip_annotations on the two enumerations: %r" % model)
    for case, ob in zip(cases, obs):
        sweep.judge(case, ob, envs)
        ok = True
        for e in envs:
            last = [l.strip() for l in ob[e["name"]]["out"].decode().split("\n") if l.strip()]
            abc = [l for l in last if l.endswith(" abc")]
            shown = abc[0].split(" ")[0] if abc else "?"
            keep = {"10.67": "0", "10.66666667": "1"}.get(shown)
            if keep is None or keep not in keeps:
                ok = False
                ctx.tie_broken("corr:os.strip", "%s: ledger shows %r (%s), model keeps %r" % (case[1][-1], shown, e["name"], sorted(keeps)))
        if ok:
            ctx.traces_validated += 1
        ctx.nontrivial(("strip", case[1][-1]))
    ctx.feature("strip:cases", len(cases))


def corr_finalize(ctx, sweep, n):
    """two-commodity transactions: the computed costs (os.finalize, both enumerations) vs %(cost)."""
    rng = ctx.rng
    decs = {"AAA": 0, "EUR": 2, "USD": 2, "MMM": 1, "QQ": 2, "KK": 0}
    xacts, metas = [], []
    for i in range(n):
        c1, c2, c3 = rng.sample(list(decs), 3)
        np_ = rng.randint(2, 5)
        zero_top = rng.random() < 0.15
        while True:
            posts = []
            for j in range(np_):
                c = c1 if j == 0 else (c2 if j == 1 else rng.choice([c1, c2]))
                q = Fraction(rng.randint(1, 99999), 10 ** decs[c]) * rng.choice([1, -1])
                posts.append((c, q))
            t1 = sum(q for c, q in posts if c == c1)
            t2 = sum(q for c, q in posts if c == c2)
            if t1 != 0 and t2 != 0 and (t1 > 0) != (t2 > 0):
                break
        if zero_top:
            posts = [(c3, Fraction(0))] + posts
        lines = ["2020/01/%02d f%03d" % (1 + i % 28, i)]
        for j, (c, q) in enumerate(posts):
            ip, fp = jgen.dec_digits(q, decs[c])
            lines.append("    P%d   %s%s%s %s" % (j, "-" if q < 0 else "", ip, ("." + fp) if fp else "", c))
        xacts.append("\n".join(lines))
        metas.append((posts, zero_top))
    jtext = "\n\n".join(xacts) + "\n"
    args = ["reg", "--empty", "--format", "%(payee)|%(account)|%(verif_rational(cost))\n"]
    case = (jtext, args, {})
    envs = [sweep.envs[0]] + [e for e in sweep.envs if e["name"] in ("mmap0", "tcache0-fast0")]
    ob = sweep.run_cases([case], envs)[0]
    sweep.judge(case, ob, envs)
    o = ob[envs[0]["name"]]
    if o["rc"] != 0:
        ctx.tie_broken("corr:os.finalize", "ledger rejected the two-commodity journal: " + text(o["err"], 500))
        return
    got = {}
    for l in o["out"].decode().split("\n"):
        if l:
            payee, acct, vr = l.split("|", 2)
            got.setdefault(payee, {})[acct] = parse_vr(vr)
    envs_s = ",".join("%s=%d" % kv for kv in decs.items())
    lines = []
    for posts, zt in metas:
        f = "\t".join(amt_field(q, decs[c], c) for c, q in posts)
        lines.append("os.finalize\t%s\tfwd\t%s" % (envs_s, f))
        lines.append("os.finalize\t%s\trev\t%s" % (envs_s, f))
    model = vflib.driver_run(lines)
    for i, (posts, zt) in enumerate(metas):
        ctx.count()
        mf, mr = model[2 * i], model[2 * i + 1]
        def as_rows(m):
            rows = {}
            for j, (f, (c, q)) in enumerate(zip(m.split("\t")[1:], posts)):
                rows["P%d" % j] = parse_model_bal(f) if f != "-" else ({c: q} if q != 0 else {})
            return rows
        g = got.get("f%03d" % i, {})
        cands = [as_rows(mf), as_rows(mr)] if mf.startswith("ok") and mr.startswith("ok") else []
        if not zt and mf != mr:
            ctx.tie_broken("corr:os.finalize", "model gives different costs for the two enumerations without a zero top posting: %r %r" % (mf, mr))
        if g not in cands:
            ctx.tie_broken("corr:os.finalize", "costs of f%03d: ledger %r, model %r" % (i, g, cands))
            ctx.mism.append({"op": "os.finalize", "xact": xacts[i], "ledger": str(g), "model": [mf, mr]})
        else:
            ctx.traces_validated += 1
        # oracle on ledger's own output: with the implied costs the transaction balances exactly
        tot = {}
        for acct, d in g.items():
            for c, q in d.items():
                tot[c] = tot.get(c, 0) + q
        if any(q != 0 for q in tot.values()):
            ctx.feature("finalize:costs-do-not-sum-to-zero")
        ctx.nontrivial(("fin", xacts[i]))
        ctx.feature("finalize:zero-top" if zt else "finalize:two-commodity")


def posts_of(x):
    return [(p["account"], jgen.amt_q(p["amount"]), p["amount"]["prec"], p["amount"]["comm"]) for p in x["posts"]]


def corr_collapse_subtotal(ctx, sweep, njournals):
    """reg --collapse --depth d rows (os.collapse with the OBSERVED account order) and reg --subtotal rows (os.subtotal)."""
    rng = ctx.rng
    base = sweep.envs[0]
    mm = next(e for e in sweep.envs if e["name"] == "mmap0")
    for _ in range(njournals):
        j, comms = gen_journal(rng, simple=True)
        jtext = jgen.render(j, comms)
        depth = rng.choice([1, 1, 2, 3])
        args = ["reg", "--collapse", "--depth", str(depth), "--empty", "--format", "%(payee)|%(account)|%(verif_rational(amount))\n"]
        sargs = ["reg", "--subtotal", "--empty", "--format", "%(account)|%(verif_rational(amount))\n"]
        obs = sweep.run_cases([(jtext, args, {}), (jtext, sargs, {})], [base, mm])
        lines, keys = [], []
        for e in (base, mm):
            o = obs[0][e["name"]]
            if o["rc"] != 0:
                ctx.tie_broken("corr:os.collapse", "ledger failed on a generated journal: " + text(o["err"], 400))
                continue
            rows = {}
            for l in o["out"].decode().split("\n"):
                if l:
                    payee, acct, vr = l.split("|", 2)
                    rows.setdefault(payee, []).append((acct, parse_vr(vr)))
            for x in j["xacts"]:
                r = rows.get(x["payee"], [])
                sigma = ";".join(a for a, _ in r)
                lines.append("os.collapse\t%d\t%s\t" % (depth, sigma) + "\t".join("%s|%s" % (a, amt_field(q, pr, c)) for a, q, pr, c in posts_of(x)))
                keys.append((e["name"], x, r))
        model = vflib.driver_run(lines) if lines else []
        for (ename, x, r), m in zip(keys, model):
            ctx.count()
            want = [(f.split("|")[0], parse_model_bal(f.split("|", 1)[1])) for f in m.split("\t")[1:]]
            # a single displayed posting at depth>0 still goes through the totals map
            if want != r:
                ctx.tie_broken("corr:os.collapse", "rows of %s (%s): ledger %r, model %r" % (x["payee"], ename, r, want))
                ctx.mism.append({"op": "os.collapse", "env": ename, "ledger": str(r), "model": str(want)})
            else:
                ctx.traces_validated += 1
            # oracle independent of the model: the rows are the per-ancestor exact sums, as a multiset
            exact = {}
            for a, q, pr, c in posts_of(x):
                key = ":".join(a.split(":")[:depth])
                exact.setdefault(key, {})
                exact[key][c] = exact[key].get(c, 0) + q
            exact = {k: {c: q for c, q in v.items() if q != 0} for k, v in exact.items()}
            if sorted((a, sorted(d.items())) for a, d in r) != sorted((a, sorted(d.items())) for a, d in exact.items()):
                ctx.violation("C19:filters.cc:collapse-sums", "reg --collapse --depth %d rows are not the exact per-account sums of %s" % (depth, x["payee"]),
                              {"kind": "single", "journal": jtext, "args": args, "rows": str(r), "exact": str(exact)})
            if len(r) >= 2:
                ctx.nontrivial(("collapse", depth, jgen.render({"xacts": [x]}, comms)))
        sweep.judge((jtext, args, {}), obs[0], [base, mm], shrinker=lambda t, a, ea, eb: shrink_journal_text(t, a, ea, eb, sweep))
        # subtotal
        o = obs[1][base["name"]]
        sweep.judge((jtext, sargs, {}), obs[1], [base, mm])
        if o["rc"] == 0:
            r = [(l.split("|", 1)[0], parse_vr(l.split("|", 1)[1])) for l in o["out"].decode().split("\n") if l]
            allposts = [p for x in j["xacts"] for p in posts_of(x)]
            m = vflib.driver_run(["os.subtotal\t" + "\t".join("%s|%s" % (a, amt_field(q, pr, c)) for a, q, pr, c in allposts)])[0]
            want = [(f.split("|")[0], parse_model_bal(f.split("|", 1)[1])) for f in m.split("\t")[1:]]
            ctx.count()
            if want != r:
                ctx.tie_broken("corr:os.subtotal", "subtotal rows: ledger %r, model %r" % (r, want))
                ctx.mism.append({"op": "os.subtotal", "ledger": str(r), "model": str(want)})
            else:
                ctx.traces_validated += 1
            names = [a for a, _ in r]
            if names != sorted(names, key=lambda s: s.encode()):
                ctx.violation("C19:filters.cc:subtotal-order", "reg --subtotal rows are not in account-name order: %r" % names,
                              {"kind": "single", "journal": jtext, "args": sargs})
            ctx.nontrivial(("subtotal", jtext))
        ctx.feature("collapse:depth=%d" % depth)


def corr_xml_prices(ctx, sweep, njournals):
    """put_balance and prices with the OBSERVED enumeration."""
    rng = ctx.rng
    envs = [sweep.envs[0]] + [e for e in sweep.envs if e["name"] in ("tcache0", "mmap0")]
    for _ in range(njournals):
        # costs give prices; no elided amounts, so that the commodities of the postings in journal order (what
        # journal_posts walks) can be read off the AST without modelling finalize
        k = rng.randint(3, 8)
        comms = rng.sample(POOL, k)
        g = jgen.Gen(rng, comms=comms, accounts=rng.choice(ACCOUNT_SETS), p_cost=0.35, p_elide=0, p_multi=0.6)
        xs = []
        while len(xs) < rng.randint(5, 16):
            x = g.xact()
            if all(p["amount"] is not None for p in x["posts"]):
                xs.append(x)
        if rng.random() < 0.5:
            xs.sort(key=lambda x: x["date"])
        j = {"xacts": xs}
        jtext = jgen.render(j, comms)
        post_comms = [p["amount"]["comm"] for x in j["xacts"] for p in x["posts"]]
        obs = sweep.run_cases([(jtext, ["xml"], {}), (jtext, ["prices"], {})], envs)
        lines, wants = [], []
        for e in envs:
            o = obs[0][e["name"]]
            if o["rc"] != 0:
                continue
            try:
                root = ET.fromstring(o["out"])
            except ET.ParseError as ex:
                ctx.tie_broken("corr:os.putbal", "xml output does not parse: %s" % ex)
                continue
            for bal in root.iter("balance"):
                syms = [a.find("commodity").find("symbol").text if a.find("commodity") is not None else "" for a in bal.findall("amount")]
                if len(syms) >= 2 and len(set(syms)) == len(syms):
                    lines.append("os.putbal\t" + "\t".join(amt_field(1, 0, s) for s in syms))
                    wants.append(syms)
            # prices: group order
            po = obs[1][e["name"]]
            groups = []
            for l in po["out"].decode().split("\n"):
                f = l.split()
                if len(f) >= 3 and (not groups or groups[-1] != f[1]):
                    groups.append(f[1])
            if len(groups) == len(set(groups)) and groups:
                # σ = the observed order (used only when the collection is address-ordered); the fields are the postings'
                # commodities in journal order; commodities without a price history emit nothing
                lines.append("os.prices\t%s\t" % ";".join(groups) + "\t".join(post_comms))
                wants.append(groups)
                first = []
                for c in post_comms:
                    if c not in first:
                        first.append(c)
                ctx.feature("prices:first-appearance-order" if [c for c in first if c in groups] == groups else "prices:other-order")
            elif groups:
                ctx.feature("prices:groups-not-contiguous")
        model = vflib.driver_run(lines) if lines else []
        for l, m, w in zip(lines, model, wants):
            ctx.count()
            got = [f.rpartition("=")[0] if l.startswith("os.putbal") else f for f in m.split("\t")[1:]]
            if l.startswith("os.prices"):
                got = [c for c in got if c in w]
            if got != w:
                ctx.tie_broken("corr:" + l.split("\t")[0], "enumeration: ledger %r, model %r" % (w, got))
                ctx.mism.append({"op": l.split("\t")[0], "ledger": w, "model": got})
            else:
                ctx.traces_validated += 1
        sh = lambda t, a, ea, eb: shrink_journal_text(t, a, ea, eb, sweep)
        sweep.judge((jtext, ["xml"], {}), obs[0], envs, shrinker=sh)
        sweep.judge((jtext, ["prices"], {}), obs[1], envs, shrinker=sh)


# ---------------------------------------------------------------------------


def run(tier, seed):
    ctx = Check("C19", tier, seed)
    ctx.mism = []
    ctx.rule = ("case = (journal, command) or eval expression, executed under every environment (ASLR on/off, MALLOC_PERTURB_, mmap "
                "threshold 0/256, arena/top-pad, tcache/fastbin off, 6 KB padded env, env -i, cwd / and a deep directory); journals from "
                "tools/jgen.py with 3-9 commodities and account trees, lot journals, lot-heavy journals (one account holding 4-10 lots of one "
                "commodity incl. pairs differing only in the presence of a tag/date/price), zero-top two-commodity transactions, malformed "
                "files; non-trivial = the journal has >= 3 commodities and the command printed something, or the expression has a "
                "balance of >= 2 (cmp) / >= 3 (print, top_amount) commodities; distinct by (journal text, command)")
    ctx.assumptions = ["glibc malloc tunables and setarch -R really change the process layout (measured: the known leaks flip under them)",
                       "compare_by_commodity is a total order on the distinct commodities of one balance (proved for unannotated symbols)",
                       "the runtime half of the property (no uninitialised read, no clock dependence) is exercised, not proved"]
    driver_ok = ctx.prepare()
    if not os.path.exists(LEDGER):
        return ctx.finish()
    search = bool(ctx.ties_broken)         # a broken obligation: widen every stream
    thorough = tier == "thorough"
    scale = (8 if thorough else 1) * (3 if search else 1)
    workdir = tempfile.mkdtemp(prefix="c19-")
    deep = os.path.join(workdir, "a" * 40, "b" * 40, "c" * 40)
    os.makedirs(deep)
    try:
        if not snapshot_binary(workdir):
            ctx.tie_broken("build:ledger-snapshot", "could not take a private copy of " + vflib.LEDGER)
            return ctx.finish()
        envs = environments(deep)
        ctx.extra_cov["environments"] = [e["name"] for e in envs]
        ctx.extra_cov["setarch_R"] = bool(setarch_prefix())
        sweep = Sweep(ctx, envs, workdir)
        rng = ctx.rng
        shr = lambda t, a, ea, eb: shrink_journal_text(t, a, ea, eb, sweep)
        # 1. corpus: the candidate defects as deterministic families
        wc = witness_cases()
        obs = sweep.run_cases(wc)
        order = sorted(range(len(wc)), key=lambda i: -severity(wc[i][1], obs[i], envs))     # report the starkest member of a family
        for case, ob in [(wc[i], obs[i]) for i in order]:
            same = sweep.judge(case, ob, shrinker=shr)
            ctx.feature("witness:%s:%s" % (case[2]["witness"].split(" ")[0], "stable" if same else "flips"))
            ctx.nontrivial(("w", case[0], tuple(case[1])))
        # 2. correspondence with the model (needs the driver)
        if driver_ok:
            bad = vflib.driver_run(["os.print", "os.cmp\tlt\tx", "os.collapse\tq\t\tA|1/1:0:0:X", "os.finalize\t\tsideways\t1/1:0:0:X"])
            if any(not b.startswith("err\t") for b in bad):
                ctx.tie_broken("corr:malformed-ops", "driver accepted a malformed op: %r" % bad)
            corr_print(ctx, sweep, 60 * scale)
            corr_cmp(ctx, sweep, 120 * scale)
            corr_top(ctx, sweep, 40 * scale)
            corr_finalize(ctx, sweep, 40 * scale)
            corr_strip(ctx, sweep)
            corr_collapse_subtotal(ctx, sweep, 8 * scale)
            corr_xml_prices(ctx, sweep, 6 * scale)
        # 3. the runtime sweep
        cmds = [c.split() for c in (COMMANDS if thorough or search else QUICK_COMMANDS)]
        nj = (40 if not thorough else 120) * (2 if search else 1)
        journals = []
        for i in range(nj):
            r = rng.random()
            if r < 0.12:
                journals.append((lots_journal(rng), 3))
            elif r < 0.2:
                journals.append((zero_top_journal(rng), 3))
            else:
                j, comms = gen_journal(rng, simple=rng.random() < 0.2)
                journals.append((jgen.render(j, comms), len(comms)))
        # mmap threshold 0 costs ~0.5 s per process (every allocation is an mmap): in the quick tier it is applied to every
        # second journal of the sweep (and to every case of the corpus and correspondence stages above)
        light = [e for e in envs if e["name"] != "mmap0"]
        cases = [(jt, c, {"commodities": k, "light": (not thorough) and ji % 2 == 1}) for ji, (jt, k) in enumerate(journals) for c in cmds]
        CH = 160
        for i in range(0, len(cases), CH):
            chunk = cases[i:i + CH]
            for lt in (False, True):
                sub = [c for c in chunk if c[2]["light"] == lt]
                if not sub:
                    continue
                el = light if lt else envs
                for case, ob in zip(sub, sweep.run_cases(sub, el)):
                    sweep.judge(case, ob, el, shrinker=shr)
                    o = ob[el[0]["name"]]
                    if o["out"].strip() and case[2]["commodities"] >= 3:
                        ctx.nontrivial((case[0], tuple(case[1])))
                    ctx.feature("cmd:" + " ".join(case[1][:3]))
                    if o["rc"] not in (0, None):
                        ctx.feature("rc!=0")
        # 3b. lot-heavy journals: one balance holding many lots of one commodity, every lot command, every environment
        nlot = (3 if not thorough else 20) * (2 if search else 1)
        lcmds = [c.split() for c in LOT_COMMANDS]
        for li in range(nlot):
            jt, lots, sym = lot_heavy_journal(rng, with_exprs=(thorough and li % 4 == 3))
            lcases = [(jt, c, {"commodities": len(lots), "lots": True}) for c in lcmds]
            for case, ob in zip(lcases, sweep.run_cases(lcases)):
                sweep.judge(case, ob, shrinker=None)
                if ob[envs[0]["name"]]["out"].strip():
                    ctx.nontrivial((case[0], tuple(case[1])))
                ctx.feature("lotcmd:" + " ".join(case[1][:3]))
            lot_order_oracle(ctx, sweep, jt, lots, sym)
            ctx.feature("lots:n=%d" % len(lots))
        # 4. malformed stream: errors must be as deterministic as reports
        mcases = [(m, c, {"malformed": True}) for m in MALFORMED for c in (["bal"], ["print"], ["reg", "--collapse"])]
        obs = sweep.run_cases(mcases)
        for case, ob in zip(mcases, obs):
            sweep.judge(case, ob)
            ctx.feature("malformed:rc=%s" % ob[envs[0]["name"]]["rc"])
        # 5. option-level malformed / boundary commands
        ocases = [(journals[0][0], a, {}) for a in (["reg", "--collapse", "--depth", "0"], ["reg", "--collapse", "--depth", "99"],
                                                     ["bal", "--depth", "0"], ["reg", "--head", "0"], ["nosuchcommand"],
                                                     ["reg", "--format", "%(nosuchfn)"], ["bal", "-X"], ["eval", "1 +"],
                                                     ["eval", "top_amount(1 AAA)"], ["eval", "(1 AAA) < 1 AAA"], ["eval", "top_amount(0)"])]
        obs = sweep.run_cases(ocases)
        for case, ob in zip(ocases, obs):
            sweep.judge(case, ob)
        ctx.sample({"environments": [e["name"] for e in envs], "commands": [" ".join(c) for c in cmds][:8], "journals": nj,
                    "first_journal": journals[0][0][:400]})
        ctx.extra_cov["gen_flags"] = gen_flags()
        if ctx.mism:
            ctx.extra_cov["mismatches"] = ctx.mism[:10]
    finally:
        shutil.rmtree(workdir, ignore_errors=True)
    return ctx.finish()


def gen_flags():
    p = os.path.join(vflib.LEAN, "LedgerModel", "Gen", "OrderSources.lean")
    try:
        s = open(p, encoding="utf-8").read()
    except OSError:
        return {}
    return {m.group(1): m.group(2) for m in re.finditer(r"def (putBalanceSorted|topAmountSorted|collapseTotalsOrder|pricesSetOrder) : \w+ := (\S+)", s)}


def replay(obj):
    r = obj.get("replay", {})
    vflib.ensure_ledger()
    if r.get("kind") == "diff":
        wd = tempfile.mkdtemp(prefix="c19r-")
        try:
            jp = None
            if r.get("journal") is not None:
                jp = os.path.join(wd, "j.dat")
                with open(jp, "w", encoding="utf-8") as f:
                    f.write(r["journal"])
            res = []
            for k in ("envA", "envB"):
                e = dict(r[k])
                if e.get("cwd") and not os.path.isdir(e["cwd"]):
                    os.makedirs(e["cwd"], exist_ok=True)
                ob = observe(r["args"], e, jp)
                res.append(ob)
                print("== %s (%s): rc=%s" % (k, e["name"], ob["rc"]))
                print(text(canon(r["args"], ob), 3000))
                if ob["err"]:
                    print("stderr:", text(ob["err"], 1000))
            same = digest(r["args"], res[0]) == digest(r["args"], res[1])
            print("outputs identical now" if same else "outputs still differ: %s" % obj.get("fingerprint"))
            return 0 if same else 1
        finally:
            shutil.rmtree(wd, ignore_errors=True)
    print(json.dumps(obj, indent=1)[:4000])
    return 1
