"""C20 — time-clock entries yield the exact elapsed time.

Theorems: lean/LedgerModel/Props/C20.lean over Model/Timelog.lean (`step` over
i/o events, the matching rule of timelog.cc 84-111, create_timelog_xact, the
--day-break loop with its termination measure, close at end of input, the
fixed-column account read of textual.cc 471/500).

Tie: tools/extract_timelog.py -> Gen/Timelog.lean (C20.source_pinned, the
interpreted flag acctOffsetBounded) and this differential check:
  run(line)    the model on the events as the LINES say (account absent => none)
  run(as-read) the model on the events as textual.cc reads them: for a line shorter
               than column 22 the account is `readAcctAt 22 Gen.acctOffsetBounded line stale`
               with `stale` taken from a byte-exact simulation of linebuf
  ledger       reg rows (exact seconds via verif_rational), stderr, exit status, bal
`run(as-read)` must equal ledger (tie).  Where `run(line)` differs from ledger the
implementation-side oracle decides.

Oracle (independent of the Lean model, plain Python ints + datetime): pairs the
events per account itself, computes every session's seconds and, under
--day-break, the overlap of the session with every calendar day it touches, and
compares with ledger's rows and per-account balances; a malformed sequence must
be refused with a message naming the first malformed line and a non-zero status.
"""
import os, re, sys, json, glob, hashlib, itertools, tempfile, calendar
from datetime import datetime, date, time as dtime, timedelta
from fractions import Fraction
import vflib
from vflib import Check
import extract_timelog

MANIFEST = dict(
    text="Machine-checked proof (Lean 4) about a step-by-step model of timelog.cc: every matched check-in/check-out pair yields one "
         "posting of exactly out-in seconds on the check-in day to that account; under --day-break the pieces sum to out-in, each lies "
         "within one calendar day, their dates are the consecutive days touched and the loop terminates (measure out-begin); for every "
         "event list an account's time equals the sum of its sessions, with and without --day-break; sessions are backed by lines of the "
         "input; the three malformed kinds are errors and suppress the report; matching refines 'the open check-in of the same account' "
         "under an explicit guard (22 theorems, arbitrary event lists and timestamps). timelog.cc's function bodies, messages and the "
         "fixed columns of textual.cc are re-extracted on every run; the model is run against the rebuilt binary on exhaustive short "
         "histories and seeded random histories (1-60 events, 1-4 accounts, midnights, month ends, leap days, --day-break, --now), and an "
         "independent integer/datetime oracle on ledger's own rows supplies the failing input.",
    note="Modelled, not verified: boost date/time parsing and subtraction, amount parsing of '<n>s', account lookup by full name "
         "(pointer equality = name equality). Not modelled: '; note' tails, apply account, long overflow. Called out: with exactly one "
         "session open the code closes it whatever account the check-out names (C20.single_open_closes_any); the matching theorem is "
         "guarded accordingly. Finding: the account field is read at the fixed column 22 even on shorter lines (stale linebuf bytes), so an "
         "account-less check-out with several sessions open silently closes an arbitrary one (C20.acct_field_from_line_fails_unbounded).",
    technique="Lean 4 proof by invariants of step / well-founded loop + regenerated source text under a pinned-copy theorem + "
              "differential model/binary check with a byte-exact linebuf simulation",
    ref="DESIGN.md §5 C20")

FMT = "%(date)|%(account)|%(verif_rational(amount))|%(quantity(amount))|%(commodity(amount))|%(payee)|%(code)|%(cleared)|%(checkin)|%(checkout)\n"
BALFMT = "%(account)|%(verif_rational(amount))\n"
EPOCH = datetime(1970, 1, 1)
HEADER = ";" + " " * 100          # read_line strips the blanks: columns 1..100 of linebuf become NUL
FP_STALE = "C20:textual.cc:clock_out_directive:line+22"

MSG2KIND = {
    "Timelog check-out event without a check-in": "outNoIn",
    "Cannot double check-in to the same account": "doubleIn",
    "Timelog check-out date less than corresponding check-in": "outBeforeIn",
    "When multiple check-ins are active, checking out requires an account": "unmatched",
    "Timelog check-out event does not match any current check-ins": "unmatched",
    "Timelog check-in requires an account": "inNoAccount",
}
MODEL2KIND = {"outNoIn": "outNoIn", "doubleIn": "doubleIn", "outBeforeIn": "outBeforeIn",
              "needAccount": "unmatched", "noMatch": "unmatched", "inNoAccount": "inNoAccount"}


def ts_of(y, m, d, hh=0, mm=0, ss=0):
    return calendar.timegm((y, m, d, hh, mm, ss))


def dt(ts):
    return EPOCH + timedelta(seconds=ts)


def fmt_ts(ts):
    return dt(ts).strftime("%Y/%m/%d %H:%M:%S")


def line_of(ev):
    k, ts, acct, desc = ev
    s = "%s %s" % (k, fmt_ts(ts))
    if acct:
        s += " " + acct
        if desc:
            s += "  " + desc
    return s


def journal_text(case):
    lines = [HEADER] if case.get("header") else []
    lines += [line_of(e) for e in case["events"]]
    return "\n".join(lines) + "\n"


def case_key(case):
    return hashlib.sha1(json.dumps([case["events"], case["db"], case["now"], bool(case.get("header"))]).encode()).hexdigest()[:16]


# ---------------------------------------------------------------------------
# linebuf simulation (textual.cc read_line + clock_*_directive + utils.h next_element)

UNK = 0xFF


class LineBuf:
    def __init__(self):
        self.buf = bytearray([UNK]) * 4200

    def load(self, line):
        b = line.encode("latin-1")
        n = len(b)
        self.buf[0:n] = b
        self.buf[n] = 0
        while n > 0 and chr(self.buf[n - 1]) in " \t\n\r\v\f":
            n -= 1
            self.buf[n] = 0
        return n

    def _skip_ws(self, p):
        while self.buf[p] in (32, 9, 10):
            p += 1
        return p

    def _next_element(self, p):
        while self.buf[p] != 0:
            if self.buf[p] == UNK:
                return None
            c = self.buf[p]
            if c == 9 or (c == 32 and self.buf[p + 1] == 32):
                self.buf[p] = 0
                return self._skip_ws(p + (1 if c == 9 else 2))
            p += 1
        return None

    def clock_read(self, n, off):
        """What the directive sees: returns the stale bytes after the terminator (up to and
        including their own terminator, None when uninitialised memory would be reached), then
        performs the two next_element calls (which write NULs into linebuf)."""
        stale = bytearray()
        q = n + 1
        ok = True
        while True:
            c = self.buf[q]
            if c == UNK:
                ok = False
                break
            stale.append(c)
            if c == 0 and q >= off:
                break
            q += 1
        p = self._skip_ws(off)
        nn = self._next_element(p)
        if nn is not None:
            self._next_element(nn)
        return bytes(stale) if ok else None


def as_read_events(case, off, bounded):
    """Per event: (acct-as-read request or None).  Returns (list of (idx, line, stale) for lines
    shorter than the column, uninit flag)."""
    lb = LineBuf()
    if case.get("header"):
        lb.load(HEADER)
    reqs = []
    uninit = False
    for i, ev in enumerate(case["events"]):
        line = line_of(ev)
        n = lb.load(line)
        stale = lb.clock_read(n, off)
        if n < off:
            if stale is None:
                uninit = True
            reqs.append((i, line[:n], stale))
    return reqs, uninit


# ---------------------------------------------------------------------------
# both sides


def enc_events(evs):
    return ";".join("%s,%d,%s,%s" % (k, ts, acct or "", desc or "") for k, ts, acct, desc in evs)


def model_line(case, evs=None):
    return "timelog.run\t%d\t%d\t%s" % (1 if case["db"] else 0, case["now"], enc_events(evs if evs is not None else case["events"]))


def canon_model(ans):
    tag, _, rest = ans.partition("\t")
    if tag == "ok":
        rows = []
        for r in (rest.split(";") if rest else []):
            d, acct, secs, payee, code, cl, tin, tout = r.split("|")
            rows.append((d, acct, int(secs), payee, code, cl == "1", int(tin), int(tout)))
        return ("ok", rows)
    if tag == "err":
        errs = []
        for e in rest.split(","):
            ln, _, k = e.partition(":")
            errs.append((ln if ln == "close" else int(ln), MODEL2KIND.get(k, k)))
        return ("err", errs)
    return ("bad", ans)


def parse_dt(s):
    try:
        return int((datetime.strptime(s, "%Y/%m/%d %H:%M:%S") - EPOCH).total_seconds())
    except ValueError:
        return None


def secs_of(vr):
    """verif_rational text of a timelog amount -> (Fraction, commodity) or None."""
    m = re.fullmatch(r"A:(-?\d+)/(\d+):\d+:[01]:(.*)", vr)
    if m:
        return Fraction(int(m.group(1)), int(m.group(2))), m.group(3)
    m = re.fullmatch(r"I:(-?\d+)", vr)
    if m:
        return Fraction(int(m.group(1))), ""
    return None


TIMEOUTS = [0]
MAX_TIMEOUTS = 8
SKIPPED = dict(rc="skipped", out="", err="", errs=[], rows=[], raw=[], bal=None, balraw=None)


def _s(x):
    return x.decode("utf-8", "replace") if isinstance(x, (bytes, bytearray)) else (x or "")


def run_ledger(case, want_bal=True):
    if TIMEOUTS[0] >= MAX_TIMEOUTS:      # a hang was found: do not spend the budget waiting for more of them
        return dict(SKIPPED)
    text = journal_text(case)
    hdr = 1 if case.get("header") else 0
    with tempfile.NamedTemporaryFile("w", suffix=".dat", delete=False, dir=TMP) as f:
        f.write(text)
        path = f.name
    try:
        args = ["-f", path, "reg", "--empty", "--format", FMT, "--now", dt(case["now"]).strftime("%Y/%m/%d")]
        if case["db"]:
            args.append("--day-break")
        rc, out, err = vflib.ledger_run(args, timeout=10)
        out, err = _s(out), _s(err)
        if rc is None:
            TIMEOUTS[0] += 1
        bal = None
        if want_bal and rc == 0:
            a2 = ["-f", path, "bal", "--flat", "--empty", "--no-total", "--format", BALFMT, "--now", dt(case["now"]).strftime("%Y/%m/%d")]
            if case["db"]:
                a2.append("--day-break")
            rc2, out2, err2 = vflib.ledger_run(a2, timeout=10)
            bal = (rc2, _s(out2), _s(err2))
    finally:
        os.unlink(path)
    errs = []
    loc = None
    for l in err.split("\n"):
        m = re.match(r'While parsing file "[^"]*", line (\d+):', l)
        if m:
            loc = int(m.group(1)) - hdr
            continue
        if l.startswith("Error: "):
            msg = l[len("Error: "):].strip()
            errs.append((loc if loc is not None else "close", MSG2KIND.get(msg, "other:" + msg)))
            loc = None
    rows = []
    raw = []
    for l in out.split("\n"):
        if not l:
            continue
        f = l.split("|")
        if len(f) != 10:
            raw.append(("unparsed", l))
            continue
        d, acct, vr, q, comm, payee, code, cl, cin, cout = f
        sc = secs_of(vr)
        raw.append((d, acct, sc, q, comm, cin, cout))
        if sc is None or sc[0].denominator != 1 or sc[1] != "s":
            rows.append((d, acct, vr, payee, code, cl == "true", parse_dt(cin), parse_dt(cout)))
        else:
            rows.append((d, acct, int(sc[0]), payee, code, cl == "true", parse_dt(cin), parse_dt(cout)))
    balrows = None
    if bal is not None:
        balrows = {}
        for l in bal[1].split("\n"):
            if "|" in l:
                a, _, vr = l.rpartition("|")
                balrows[a] = secs_of(vr)
    return dict(rc=rc, out=out, err=err, errs=errs, rows=rows, raw=raw, bal=balrows, balraw=bal)


def canon_ledger(res):
    if res["rc"] == "skipped":
        return ("skipped", None)
    if res["rc"] is None:
        return ("timeout", None)
    if res["rc"] < 0:
        return ("signal", res["rc"])
    if res["errs"] or res["rc"] != 0:
        return ("err", res["errs"])
    return ("ok", res["rows"])


# ---------------------------------------------------------------------------
# the implementation-side oracle (no Lean, no model)


def day_pieces(t0, t1):
    """Overlap of [t0, t1) with every calendar day it touches: [(date, seconds)], seconds > 0."""
    out = []
    d = dt(t0).date()
    last = dt(t1).date()
    while d <= last:
        lo = max(dt(t0), datetime.combine(d, dtime(0)))
        hi = min(dt(t1), datetime.combine(d + timedelta(days=1), dtime(0)))
        s = (hi - lo).days * 86400 + (hi - lo).seconds
        if hi > lo and s > 0:
            out.append((d, s))
        d += timedelta(days=1)
    return out


def _err(ln, what, open_, sessions):
    return dict(kind="error", line=ln, what=what, open_before=len(open_), sessions_before=len(sessions))


def oracle(case):
    """Pairs the events per account.  Returns a dict:
       kind = valid   : rows [(date text, account, seconds)], totals {account: seconds}, sessions
       kind = error   : line (1-based event index or 'close'), what (which malformed kind)
       kind = unspecified : the property does not fix the outcome (documented points)"""
    open_ = {}
    sessions = []
    for ln, (k, ts, acct, desc) in enumerate(case["events"], 1):
        if k in "iI":
            if not acct:
                return dict(kind="unspecified", line=ln, what="checkin-without-account")
            if acct in open_:
                return _err(ln, "double-in", open_, sessions)
            open_[acct] = ts
        else:
            if not open_:
                return _err(ln, "out-no-in", open_, sessions)
            if acct:
                if acct in open_:
                    target = acct
                elif len(open_) == 1:
                    return dict(kind="unspecified", line=ln, what="single-open-other-name")
                else:
                    return _err(ln, "out-unopened-account", open_, sessions)
            else:
                if len(open_) == 1:
                    target = next(iter(open_))
                else:
                    return _err(ln, "accountless-out-several-open", open_, sessions)
            if ts < open_[target]:
                return _err(ln, "out-before-in", open_, sessions)
            t0 = open_.pop(target)
            sessions.append((target, t0, ts))
    for acct, t0 in open_.items():
        if case["now"] < t0:
            return _err("close", "now-before-in", open_, sessions)
        sessions.append((acct, t0, case["now"]))
    rows = []
    totals = {}
    for acct, t0, t1 in sessions:
        totals[acct] = totals.get(acct, 0) + (t1 - t0)
        if case["db"]:
            for d, s in day_pieces(t0, t1):
                rows.append((d.strftime("%Y/%m/%d"), acct, s))
        else:
            rows.append((dt(t0).strftime("%Y/%m/%d"), acct, t1 - t0))
    return dict(kind="valid", rows=rows, totals=totals, sessions=sessions)


def judge(case, res, orc):
    """Evaluate the property on ledger's own outputs.  Returns None or (fingerprint-kind, what)."""
    if res["rc"] == "skipped":
        return None
    if res["rc"] is None:
        return ("hang", "ledger did not finish within 10 s (the --day-break loop must terminate: C20.daybreak_terminates)"
                if case["db"] else "ledger did not finish within 10 s")
    if res["rc"] < 0:
        return ("signal", "ledger died with signal %d" % -res["rc"])
    if orc["kind"] == "unspecified":
        return None
    if orc["kind"] == "error":
        if res["rc"] == 0 or not res["errs"]:
            return ("accepted:" + orc["what"], "malformed sequence (%s at line %s) accepted: exit status %s, %d rows printed" %
                    (orc["what"], orc["line"], res["rc"], len(res["rows"])))
        first = res["errs"][0][0]
        if first != orc["line"]:
            if first != "close" and orc["line"] != "close" and first < orc["line"]:
                return ("valid-rejected", "line %s of a so-far valid sequence rejected (%s); first malformed line is %s" % (first, res["errs"][0][1], orc["line"]))
            return ("accepted:" + orc["what"], "malformed line %s (%s) passed without error; first error reported at %s" % (orc["line"], orc["what"], first))
        return None
    # valid
    if res["rc"] != 0 or res["errs"]:
        return ("valid-rejected", "valid sequence refused: status %s, %s" % (res["rc"], res["errs"][:2]))
    got = sorted((r[0], r[1], r[2]) for r in res["rows"])
    want = sorted(orc["rows"])
    if case["db"]:
        # a session of zero length touches no second of any day: the property does not say whether it
        # shows as no row (the code today) or as one row of 0 s on its check-in day; accept both
        zero = [(dt(a).strftime("%Y/%m/%d"), acct, 0) for acct, a, b in orc["sessions"] if a == b]
        for z in zero:
            if z in got:
                got.remove(z)
    if got != want:
        from collections import Counter
        cg, cw = Counter(got), Counter(want)
        miss = sorted((cw - cg).elements())
        extra = sorted((cg - cw).elements())
        kind = "rows"
        if len(miss) == 1 and len(extra) == 1:
            g, w = extra[0], miss[0]
            kind = ("date" if g[1:] == w[1:] else "seconds" if g[:2] == w[:2] else "account" if (g[0], g[2]) == (w[0], w[2]) else "rows")
        miss, extra = miss[:2], extra[:2]
        if case["db"]:
            kind = "daybreak-" + kind
        return (kind, "rows differ from the exact sessions: missing %s, unexpected %s" % (miss, extra))
    # ledger's own fields must be consistent: amount = checkout - checkin, date = day of checkin, commodity s
    for r, rw in zip(res["rows"], res["raw"]):
        if rw[4] != "s":
            return ("commodity", "timelog amount not in seconds: %r" % (rw,))
        if r[6] is None or r[7] is None or r[7] - r[6] != r[2]:
            return ("seconds-vs-checkout", "amount %s is not checkout - checkin (%s .. %s)" % (r[2], rw[5], rw[6]))
        if dt(r[6]).strftime("%Y/%m/%d") != r[0]:
            return ("date", "posting dated %s but checked in %s" % (r[0], rw[5]))
        if str(rw[3]) != str(r[2]):
            return ("quantity", "quantity(amount) prints %s for %s seconds" % (rw[3], r[2]))
    if res["bal"] is not None:
        for acct, tot in orc["totals"].items():
            b = res["bal"].get(acct)
            if b is None and tot == 0:
                continue
            if b is None or b[0] != tot or (tot != 0 and b[1] != "s"):
                return ("account-total", "account %s reports %s, its sessions sum to %d s" % (acct, b, tot))
    return None


# ---------------------------------------------------------------------------
# generators

ACCTS = ["A", "B", "Work:Proj", "Work:Admin", "Cust X:Email", "Q", "dev:abc", "Home"]
DESCS = ["", "", "", "meeting", "fix bug 12", "call", "x"]
ANCHORS = [ts_of(2020, 2, 28, 22), ts_of(2019, 12, 31, 20), ts_of(2021, 2, 28, 23, 59, 58), ts_of(2020, 1, 31, 12),
           ts_of(2020, 4, 30, 23, 30), ts_of(2024, 2, 28, 23, 59, 59), ts_of(2100, 2, 28, 18), ts_of(2000, 2, 28, 23),
           ts_of(2023, 6, 14, 9), ts_of(2020, 12, 31, 23, 59, 59), ts_of(2020, 3, 1, 0, 0, 0), ts_of(1999, 12, 31, 23, 0, 0)]


def gen_delta(rng):
    r = rng.random()
    if r < 0.06:
        return 0
    if r < 0.25:
        return rng.randint(1, 120)
    if r < 0.50:
        return rng.randint(60, 7200)
    if r < 0.75:
        return rng.randint(3600, 86400)
    if r < 0.92:
        return rng.randint(86400, 4 * 86400)
    return rng.randint(4 * 86400, 12 * 86400)


def snap(rng, t):
    """Move a timestamp onto a boundary sometimes."""
    r = rng.random()
    day = t - t % 86400
    if r < 0.10:
        return day + 86400            # exactly next midnight
    if r < 0.16:
        return day + 86399            # 23:59:59
    if r < 0.20:
        return day + 86401            # 00:00:01 next day
    return t


def gen_valid(rng, nev, naccts):
    """A valid history: every check-out names an open account, or none when exactly one is open."""
    accts = rng.sample(ACCTS, naccts)
    t = rng.choice(ANCHORS) + rng.randint(0, 7200) * rng.choice([0, 1])
    evs = []
    open_ = {}
    while len(evs) < nev:
        can_in = [a for a in accts if a not in open_]
        do_in = bool(can_in) and (not open_ or rng.random() < 0.5)
        t = snap(rng, t + gen_delta(rng))
        if do_in:
            a = rng.choice(can_in)
            open_[a] = t
            evs.append([rng.choice("iiiI"), t, a, rng.choice(DESCS)])
        else:
            a = rng.choice(list(open_))
            t0 = open_.pop(a)
            tt = max(t, t0) if rng.random() < 0.9 else t0
            if rng.random() < 0.12:
                # an earlier timestamp than the previous line, still not before this session's check-in
                tt = t0 + rng.randint(0, max(0, t - t0))
            named = not (len(open_) == 0 and rng.random() < 0.45)
            evs.append([rng.choice("oooO"), tt, a if named else "", rng.choice(DESCS) if named else ""])
    return evs, open_


def now_after(evs, rng):
    m = max(e[1] for e in evs)
    return (m - m % 86400) + 86400 * rng.choice([1, 1, 2, 5])


def gen_case(rng, malformed=None):
    nev = rng.choice([1, 2, 3, 4, 6, 8, 12, 20, 30, 45, 60])
    if rng.random() < 0.3:
        nev = rng.randint(1, 60)
    naccts = rng.randint(1, 4)
    evs, open_ = gen_valid(rng, nev, naccts)
    case = dict(events=evs, db=rng.random() < 0.5, now=now_after(evs, rng), header=rng.random() < 0.3, tag="valid")
    if malformed:
        inject(rng, case, malformed)
    return case


def state_before(evs, pos):
    open_ = {}
    for k, ts, a, d in evs[:pos]:
        if k in "iI":
            open_[a] = ts
        else:
            tgt = a if a else (next(iter(open_)) if open_ else None)
            open_.pop(tgt, None)
    return open_


def inject(rng, case, kind):
    evs = case["events"]
    case["tag"] = kind
    poss = list(range(len(evs) + 1))
    rng.shuffle(poss)
    tref = lambda p: evs[p - 1][1] if p > 0 else evs[0][1] - 100
    if kind == "now-before-in":
        # leave one session open and set --now before it
        t = max(e[1] for e in evs) + 50
        used = set(state_before(evs, len(evs)))
        free = [a for a in ACCTS if a not in used]
        evs.append(["i", t, free[0], ""])
        case["now"] = (t - t % 86400) - 86400 * rng.choice([0, 1, 30])
        if case["now"] >= t:
            case["now"] -= 86400
        return
    for p in poss:
        op = state_before(evs, p)
        t = tref(p) + rng.randint(0, 50)
        if kind == "out-no-in" and not op:
            evs.insert(p, ["o", t, rng.choice(["", "A", "Zed"]), ""])
            if p == 0 and not evs[0][2]:
                case["header"] = True
            return
        if kind == "double-in" and op:
            evs.insert(p, ["i", t, rng.choice(list(op)), ""])
            return
        if kind == "out-before-in" and op:
            a = rng.choice(list(op))
            evs.insert(p, ["o", op[a] - rng.choice([1, 1, 60, 86400]), a, ""])
            return
        if kind == "accountless-out-several-open" and len(op) >= 2:
            evs.insert(p, ["o", t, "", ""])
            return
        if kind == "out-unopened-account" and len(op) >= 2:
            evs.insert(p, ["o", t, rng.choice([a for a in ACCTS + ["Zed"] if a not in op]), ""])
            return
        if kind == "single-open-other-name" and len(op) == 1:
            evs.insert(p, ["o", max(t, list(op.values())[0]), rng.choice([a for a in ACCTS + ["Zed"] if a not in op]), ""])
            return
    # no suitable position: make one at the end
    t = max(e[1] for e in evs) + 10
    op = state_before(evs, len(evs))
    free = [a for a in ACCTS if a not in op]
    if kind in ("accountless-out-several-open", "out-unopened-account"):
        while len(op) < 2:
            a = free.pop()
            evs.append(["i", t, a, ""])
            op[a] = t
            t += 7
        evs.append(["o", t + 5, "" if kind == "accountless-out-several-open" else "Zed", ""])
    elif kind in ("double-in", "out-before-in", "single-open-other-name"):
        for a in list(op)[1:]:
            evs.append(["o", t, a, ""])
            t += 3
            op.pop(a)
        if not op:
            a = free.pop()
            evs.append(["i", t, a, ""])
            op[a] = t
        a = next(iter(op))
        if kind == "double-in":
            evs.append(["i", t + 9, a, ""])
        elif kind == "out-before-in":
            evs.append(["o", op[a] - 1, a, ""])
        else:
            evs.append(["o", t + 9, "Zed", ""])
    elif kind == "out-no-in":
        for a in list(op):
            evs.append(["o", t, a, ""])
            t += 3
        evs.append(["o", t + 1, "A", ""])
    case["now"] = max(case["now"], now_after(evs, rng))


MALFORMED = ["out-no-in", "double-in", "out-before-in", "accountless-out-several-open", "out-unopened-account",
             "now-before-in", "single-open-other-name"]


def exhaustive_cases(maxlen):
    """Every sequence of length <= maxlen over {i A, i B, o A, o B, o -} with two timestamp
    patterns (increasing across midnights; zig-zag so that some check-outs precede their check-in)."""
    moves = [("i", "A"), ("i", "B"), ("o", "A"), ("o", "B"), ("o", "")]
    base = ts_of(2020, 2, 28, 20, 0, 0)
    pats = [[base + 40000 * k for k in range(maxlen)],
            [base + (50000 * (k // 2 + 1) if k % 2 else 20000 * (k // 2)) - (70000 if k == 3 else 0) for k in range(maxlen)]]
    out = []
    for n in range(1, maxlen + 1):
        for seq in itertools.product(moves, repeat=n):
            for pi, pat in enumerate(pats):
                if pi == 1 and n < 2:
                    continue
                evs = [[k, pat[i], a, ""] for i, (k, a) in enumerate(seq)]
                hdr = not seq[0][1]
                out.append(dict(events=evs, db=(n + pi) % 2 == 1, now=ts_of(2020, 3, 4), header=hdr, tag="exhaustive"))
    return out


MIDNIGHTS = [ts_of(2020, 2, 29), ts_of(2020, 3, 1), ts_of(2021, 3, 1), ts_of(2100, 3, 1), ts_of(2000, 2, 29), ts_of(2000, 3, 1),
             ts_of(2020, 1, 1), ts_of(2021, 1, 1), ts_of(2020, 5, 1), ts_of(2024, 2, 29)]
B_INS = [-86401, -86400, -86399, -3600, -2, -1, 0, 1]
B_OUTS = [-1, 0, 1, 2, 3600, 86399, 86400, 86401, 172800, 172801]
B_LENS = [0, 1, 2, 86399, 86400, 86401, 172800]


def boundary_cases(full):
    """Edges of every comparison in timelog.cc 118-157: out < in, begin < out, out <= days_end."""
    out = []
    k = 0
    for M in (MIDNIGHTS if full else MIDNIGHTS[:6]):
        far = M + 5 * 86400
        for a in B_INS:
            t0 = M + a
            ends = sorted({M + b for b in B_OUTS} | {t0 + l for l in B_LENS} | {t0 - 1})
            for t1 in ends:
                for db in (False, True):
                    k += 1
                    out.append(dict(events=[["i", t0, "A", ""], ["oO"[k % 2], t1, ["A", ""][k % 3 == 0], ""]], db=db, now=far, header=False, tag="boundary"))
            # two accounts interleaved, B one second behind A
            for la, lb_ in itertools.product([0, 1, 86400, 86401], repeat=2):
                k += 1
                evs = [["i", t0, "A", ""], ["i", t0 + 1, "B", ""]]
                outs = sorted([(t0 + la, "A"), (t0 + 1 + lb_, "B")])
                evs += [["o", t, acct, ""] for t, acct in outs]
                out.append(dict(events=evs, db=k % 2 == 0, now=far, header=False, tag="boundary"))
            # left open, closed by --now before / at / after the check-in
            for now in (M - 86400, M, M + 86400, M + 2 * 86400):
                for db in (False, True):
                    out.append(dict(events=[["i", t0, "A", ""]], db=db, now=now, header=False, tag="boundary"))
    return out


# ---------------------------------------------------------------------------
# evaluation of a batch of cases


def features(ctx, case, orc):
    evs = case["events"]
    ctx.feature("events:%s" % ("1-3" if len(evs) <= 3 else "4-10" if len(evs) <= 10 else "11-30" if len(evs) <= 30 else "31-61"))
    ctx.feature("accounts:%d" % len({e[2] for e in evs if e[2]}))
    ctx.feature("day-break" if case["db"] else "plain")
    ctx.feature("oracle:" + orc["kind"] + (":" + orc["what"] if orc["kind"] != "valid" else ""))
    if orc["kind"] == "valid":
        ss = orc["sessions"]
        if any(dt(a).date() != dt(max(a, b - 1)).date() for _, a, b in ss):
            ctx.feature("session-crosses-midnight")
        if any(a == b for _, a, b in ss):
            ctx.feature("zero-length-session")
        if any(b == case["now"] for _, a, b in ss):
            ctx.feature("open-at-eof")
        if any(b % 86400 == 0 and b > a for _, a, b in ss):
            ctx.feature("ends-at-midnight")
        if any(dt(a).date() <= date(dt(a).year, 2, 28) < dt(b).date() and dt(a).year == dt(b).year for _, a, b in ss if b > a):
            ctx.feature("crosses-feb-28/29")
        if any(dt(a).month != dt(max(a, b - 1)).month for _, a, b in ss):
            ctx.feature("crosses-month-end")
        if any(b - a >= 2 * 86400 for _, a, b in ss):
            ctx.feature("multi-day")
        if any(b - a < 60 for _, a, b in ss if b > a):
            ctx.feature("seconds-long")
    if any(not e[2] for e in evs if e[0] in "oO"):
        ctx.feature("accountless-out")
    if any(e[0] in "IO" for e in evs):
        ctx.feature("capitalised")


def interleaved(orc):
    ss = orc.get("sessions") or []
    for i in range(len(ss)):
        for j in range(i + 1, len(ss)):
            if ss[i][0] != ss[j][0] and ss[i][1] < ss[j][2] and ss[j][1] < ss[i][2]:
                return True
    return False


def evaluate(cases, off, bounded, want_bal=True):
    """Runs model (as the lines say, and as read) and ledger on every case.
    Returns list of dicts(case, res, orc, m_line, m_read, verdict, uninit)."""
    # 1. account-as-read requests
    reqs = []
    per_case = []
    for ci, c in enumerate(cases):
        r, uninit = as_read_events(c, off, bounded)
        per_case.append((r, uninit))
        for (i, line, stale) in r:
            if stale is not None:
                reqs.append((ci, i, line, stale))
    codes = lambda b: ",".join(str(x) for x in b)
    ans = vflib.driver_run(["timelog.acct\t%d\t%d\t%s\t%s" % (off, 1 if bounded else 0, codes(line.encode("latin-1")), codes(stale))
                            for (_, _, line, stale) in reqs])
    read_acct = {}
    for (ci, i, line, stale), a in zip(reqs, ans):
        tag, _, rest = a.partition("\t")
        if tag != "ok":
            raise RuntimeError("timelog.acct answered %r" % a)
        read_acct[(ci, i)] = "".join(chr(int(x)) for x in rest.split(",")) if rest else ""
    lines = []
    for ci, c in enumerate(cases):
        lines.append(model_line(c))
        evs2 = []
        for i, e in enumerate(c["events"]):
            if (ci, i) in read_acct:
                evs2.append([e[0], e[1], read_acct[(ci, i)], ""])
            else:
                evs2.append(e)
        lines.append(model_line(c, evs2))
    mans = vflib.driver_run(lines)
    ress = vflib.pmap(lambda c: run_ledger(c, want_bal), cases)
    out = []
    for ci, c in enumerate(cases):
        orc = oracle(c)
        res = ress[ci]
        out.append(dict(case=c, res=res, orc=orc, m_line=canon_model(mans[2 * ci]), m_read=canon_model(mans[2 * ci + 1]),
                        verdict=judge(c, res, orc), uninit=per_case[ci][1],
                        read={i: read_acct[(ci, i)] for (cc, i) in read_acct if cc == ci}))
    return out


def expected_status(m):
    if m[0] == "ok":
        return 0
    if any(l == "close" for l, _ in m[1]):
        return 1
    return len(m[1])


def shrink(case, fp_kind, off, bounded):
    """Greedy removal of events while the same verdict kind persists on the real binary."""
    cur = json.loads(json.dumps(case))
    def bad(c):
        TIMEOUTS[0] = 0
        if not c["events"]:
            return False
        if not c["events"][0][2]:
            c = dict(c, header=True)
        r = run_ledger(c, True)
        v = judge(c, r, oracle(c))
        return v is not None and v[0] == fp_kind
    changed = True
    while changed:
        changed = False
        for i in range(len(cur["events"]) - 1, -1, -1):
            t = dict(cur, events=cur["events"][:i] + cur["events"][i + 1:])
            if not t["events"][0:1] or not t["events"]:
                continue
            if not t["events"][0][2]:
                t["header"] = True
            if bad(t):
                cur = t
                changed = True
    for i, e in enumerate(cur["events"]):
        if e[3]:
            t = json.loads(json.dumps(cur))
            t["events"][i][3] = ""
            if bad(t):
                cur = t
    if cur["db"]:
        t = dict(cur, db=False)
        if bad(t):
            cur = t
    return cur


def process(ctx, results, off, bounded):
    viol = {}
    for r in results:
        c, res, orc = r["case"], r["res"], r["orc"]
        if res["rc"] == "skipped":
            ctx.feature("skipped-after-%d-timeouts" % MAX_TIMEOUTS)
            continue
        ctx.count()
        features(ctx, c, orc)
        led = canon_ledger(res)
        agree_read = (led == r["m_read"]) and (res["rc"] == expected_status(r["m_read"]))
        agree_line = (led == r["m_line"])
        if r["uninit"]:
            ctx.feature("uninitialised-linebuf-read(skipped-as-read)")
            agree_read = True if agree_line else agree_read
        if agree_read:
            ctx.traces_validated += 1
        else:
            ctx.tie_broken("corr:timelog.run", "model (events as textual.cc reads them) and ledger disagree\njournal:\n%s\nargs: %s now=%s\nmodel: %r\nledger: %r rc=%s\nstderr: %s" %
                           (journal_text(c), "--day-break" if c["db"] else "", fmt_ts(c["now"]), r["m_read"], led, res["rc"], res["err"][:400]))
            ctx.mism.append(dict(journal=journal_text(c), db=c["db"], now=c["now"], model=repr(r["m_read"]), ledger=repr(led)))
        if not agree_line:
            ctx.feature("line-model-differs-from-ledger")
            if r["verdict"] is None and agree_read:
                # the lines designate one thing, the code read another, yet the property holds on the outcome
                ctx.feature("stale-read-harmless")
        if r["verdict"] is not None:
            kind, what = r["verdict"]
            # localise: the account-less check-out whose account was taken from stale bytes
            fp = "C20:" + kind
            if kind == "accepted:accountless-out-several-open" and not bounded and agree_read and not agree_line:
                fp = FP_STALE
            viol.setdefault(fp, []).append((len(c["events"]), r, what))
        if orc["kind"] == "valid":
            if interleaved(orc) or any(dt(a).date() != dt(max(a, b - 1)).date() for _, a, b in orc["sessions"]):
                ctx.nontrivial(case_key(c))
        elif orc["kind"] == "error" and (orc["sessions_before"] >= 1 or orc["open_before"] >= 2 or orc["what"] in ("out-before-in", "now-before-in")):
            ctx.nontrivial(case_key(c))
        ctx.sample(dict(journal=journal_text(c).split("\n")[:6], day_break=c["db"], ledger=repr(led)[:300], model=repr(r["m_line"])[:300]), cap=5)
    seen_timeouts = TIMEOUTS[0]
    for fp, lst in viol.items():
        lst.sort(key=lambda x: x[0])
        n, r, what = lst[0]
        kind = r["verdict"][0]
        small = shrink(r["case"], kind, off, bounded)
        res = run_ledger(small, True)
        site = ""
        if fp == FP_STALE:
            site = (" The account of the check-out is read at the fixed column `line + %d` (textual.cc clock_out_directive / clock_in_directive) "
                    "although the line is shorter: the bytes there are left over from an earlier line, so an arbitrary open session is closed "
                    "instead of the error 'When multiple check-ins are active, checking out requires an account'." % off)
        ctx.violation(fp, what + site,
                      dict(case=small, journal=journal_text(small),
                           cmd="ledger -f J reg --empty --format '%s' --now %s%s" % (FMT.replace("\n", "\\n"), dt(small["now"]).strftime("%Y/%m/%d"), " --day-break" if small["db"] else ""),
                           ledger_stdout=res["out"], ledger_stderr=res["err"], ledger_status=res["rc"],
                           oracle=repr(oracle(small)), occurrences=len(lst), found_in=journal_text(r["case"])))
    TIMEOUTS[0] = seen_timeouts


TMP = None


def run(tier, seed):
    global TMP
    ctx = Check("C20", tier, seed)
    TIMEOUTS[0] = 0
    ctx.mism = []
    ctx.rule = ("histories of 1-61 i/o/I/O lines over 1-4 accounts built from a valid generator (check-outs name the open account, or "
                "none when one session is open; deltas from 0 s to 12 days, snapped to midnights / 23:59:59, anchored at month ends, 28/29 Feb "
                "of leap, non-leap and century years), half of them with --day-break, sessions left open closed at --now; plus one injected "
                "malformed line of each kind; plus every sequence of length <= N over {i A, i B, o A, o B, o -}. plus boundary histories (check-in / check-out "
                "at -86401..+1 s / -1..+172801 s around ten midnights incl. 28/29 Feb and 1 Mar of leap, non-leap and century years; sessions of 0, 1, 2, "
                "86399, 86400, 86401, 172800 s; two accounts interleaved; sessions closed by --now on, at and before their check-in). Non-trivial = "
                "valid with sessions of different accounts overlapping or a session crossing a midnight; or malformed after at least one completed "
                "session / with >= 2 sessions open / with a check-out or --now earlier than its check-in; distinct by hash of (events, options).")
    ctx.assumptions = ["TZ=UTC; datetime_t carries no zone", "boost date/time parsing and subtraction are exact (trusted, exercised by the differential check)",
                       "account_t pointer equality = equality of full account names (no apply account / alias in the generated files)",
                       "the '; note' tail of clock lines and position_t are not modelled"]
    ctx.trusted = ["tools/extract_timelog.py (text of timelog.cc functions, clock-directive columns)", "linebuf simulation in tools/props/c20.py (read_line, next_element writes)"]
    if not ctx.prepare():
        return ctx.finish()
    try:
        dt_off, dt_len, off, bounded = extract_timelog.directive_reads()
    except Exception as e:  # already reported by prepare() as extract:Timelog
        ctx.tie_broken("extract:Timelog", str(e))
        return ctx.finish()
    ctx.extra_cov["acctOffset"] = off
    ctx.extra_cov["acctOffsetBounded"] = bounded
    if (dt_off, dt_len) != (2, 19):
        ctx.tie_broken("extract:Timelog:datetime-columns", "datetime now read at (%d,%d); the generator writes `K YYYY/MM/DD HH:MM:SS`" % (dt_off, dt_len))
    rng = ctx.rng
    # search mode (DESIGN §6): a proof obligation / extractor broke -> widen every stream
    wide = tier != "quick" or bool(ctx.ties_broken)
    if ctx.ties_broken and tier == "quick":
        ctx.extra_cov["search_mode"] = [t[0] for t in ctx.ties_broken]
    with tempfile.TemporaryDirectory(prefix="c20-") as tmp:
        TMP = tmp
        cases = []
        # 1. corpus
        for p in sorted(glob.glob(os.path.join(vflib.ROOT, "corpus", "C20", "*.json"))):
            with open(p) as f:
                o = json.load(f)
            for c in (o if isinstance(o, list) else [o]):
                c = dict(c)
                c.setdefault("header", False)
                c.setdefault("tag", "corpus")
                cases.append(c)
        ctx.extra_cov["corpus_cases"] = len(cases)
        # 2. bounded-exhaustive
        ex = exhaustive_cases(6 if wide else 4)
        bd = boundary_cases(wide)
        ctx.exhaustive = ("all sequences of length <= %d over {i A, i B, o A, o B, o (no account)} x 2 timestamp patterns: %d cases; "
                          "boundary grid around %d midnights: %d cases" % (6 if wide else 4, len(ex), len(MIDNIGHTS if wide else MIDNIGHTS[:6]), len(bd)))
        cases += ex + bd
        # 3. seeded random stream
        n_valid = 14000 if wide else 1200
        n_mal = 900 if wide else 60
        for i in range(n_valid):
            cases.append(gen_case(rng))
        for kind in MALFORMED:
            for i in range(n_mal):
                cases.append(gen_case(rng, kind))
        # dedupe
        seen = set()
        uniq = []
        for c in cases:
            k = case_key(c)
            if k not in seen:
                seen.add(k)
                uniq.append(c)
        CH = 2000
        for i in range(0, len(uniq), CH):
            process(ctx, evaluate(uniq[i:i + CH], off, bounded), off, bounded)
        TMP = None
    if ctx.mism:
        ctx.extra_cov["mismatches"] = ctx.mism[:8]
    return ctx.finish()


def replay(obj):
    global TMP
    r = obj.get("replay", {})
    case = r.get("case")
    if not case:
        print(json.dumps(obj, indent=1)[:2000])
        return 1
    vflib.ensure_ledger()
    with tempfile.TemporaryDirectory(prefix="c20-") as tmp:
        TMP = tmp
        res = run_ledger(case, True)
        orc = oracle(case)
        v = judge(case, res, orc)
        TMP = None
    print("journal:\n" + journal_text(case))
    print("options: --now %s%s" % (dt(case["now"]).strftime("%Y/%m/%d"), " --day-break" if case["db"] else ""))
    print("ledger now: status %s\n%s%s" % (res["rc"], res["out"], res["err"]))
    print("oracle:", orc)
    print("verdict:", v)
    return 0 if v is None else 1
