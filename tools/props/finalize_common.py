"""Shared by tools/props/c01.py and tools/props/c02.py: transaction generators on
top of tools/jgen.py, the runner for the rebuilt ledger binary and for the Lean
driver ops `xact.fin` / `journal.fin` (Model/FinalizeProto.lean), the
canonical forms compared, and the independent (plain Fraction) description of a
generated transaction that the two implementation-side oracles use.

A *case* is a dict
  {"xact": jgen xact AST, "bucket": account | None, "warm": {commodity: decimals},
   "comms": [commodity names], "tag": generator family}
`warm` is the commodity display precision in force before the transaction is
read; on the ledger side it is produced by a first transaction `warm` whose
postings are zero amounts written with that many decimals.
"""
import os, sys, json, tempfile, itertools
from fractions import Fraction

sys.path.insert(0, os.path.dirname(os.path.dirname(os.path.abspath(__file__))))
import jgen
import vflib

F = Fraction

POOL = [
    jgen.Commodity("$", 2, prefix=True, space=False, thousands=True),
    jgen.Commodity("EUR", 2),
    jgen.Commodity("AAA", 0),
    jgen.Commodity("BTC", 8),
    jgen.Commodity("£", 2, prefix=True, space=False),
    jgen.Commodity("XY", 4, thousands=True),
    jgen.Commodity("€", 3, prefix=True, space=True),
    jgen.Commodity("Z1", 1),                      # needs quotes
    jgen.Commodity("GBX", 5, thousands=True),
    jgen.Commodity("kWh", 6),
    jgen.Commodity("CHF", 7, prefix=True, space=True),
]
CMAP = {c.name: c for c in POOL}
ACCOUNTS = ["Assets:Bank:Checking", "Assets:Cash", "Expenses:Food", "Expenses:Food:Out", "Expenses:Rent",
            "Income:Salary", "Liabilities:Card", "Equity:Opening", "Assets:Broker"]
BAD_ACCOUNTS = ["Assets:Bank2", "Expenses:Misc3"]     # end in a digit: "may be misspelled" variant
BUCKET = "Assets:Bucket"

REG_FMT = ("%(display_account)|%(verif_rational(amount))|%(calculated)|%(cost_calculated)|%(has_cost)|%(verif_rational(cost))"
           "|%(verif_rational(lot_price(amount)))|%(verif_rational(lot_price(cost)))\n")
LIMIT_MUST_BALANCE = "real | !(display_account =~ /^[(]/)"     # ordinary and [bracketed] postings


# ---------------------------------------------------------------------------
# AST helpers


def post(account, kind="real", amount=None, cost=None, state=0):
    return {"account": account, "kind": kind, "state": state, "amount": amount, "cost": cost, "assert": None, "note": ""}


def xact(posts, date=None, state=0, payee="p"):
    return {"date": jgen.day_of(2020, 1, 15) if date is None else date, "aux": None, "state": state, "code": "",
            "payee": payee, "note": "", "posts": posts}


def decimals_needed(q, lo=0, hi=40):
    d = lo
    while (q * 10 ** d).denominator != 1:
        d += 1
        if d > hi:
            return None
    return d


def amt(q, cname, dec=None):
    c = CMAP[cname]
    q = F(q)
    if dec is None:
        dec = max(c.dec, decimals_needed(q))
    return jgen.amt(q, c, dec)


def cost_total(p):
    """signed total cost of a posting as a Fraction (textual.cc: `@` multiplies by the
    signed amount, `@@` takes the amount's sign).  When the amount carries a lot price in
    the cost's commodity, finalize replaces the cost by the basis cost lot price x quantity
    (xact.cc 301-327: the difference is a gain/loss the transaction has to account for)."""
    q = jgen.amt_q(p["amount"])
    lp = lot_unit_price(p["amount"])
    if lp is not None and lp[1] == p["cost"]["comm"]:
        return lp[0] * q
    cq = jgen.amt_q(p["cost"])
    if p["cost"]["per_unit"]:
        return cq * q
    return -cq if q < 0 else cq


def describe(case):
    """Independent description of the transaction (no Lean, no ledger):
    residual per commodity over must-balance postings of cost-or-amount, the
    null postings, which commodities occur, whether any cost is written."""
    x = case["xact"]
    res = {}
    present = []
    nulls = []
    virt_nulls = 0
    any_cost = False
    for i, p in enumerate(x["posts"]):
        if p["cost"] is not None:
            any_cost = True
        if p["kind"] == "virtual":
            if p["amount"] is None:
                virt_nulls += 1
            continue
        if p["amount"] is None:
            nulls.append(i)
            continue
        if p["cost"] is not None:
            c, q = p["cost"]["comm"], cost_total(p)
        else:
            c, q = lot_key(p["amount"]), jgen.amt_q(p["amount"])
        if c not in present and q != 0:
            present.append(c)
        res[c] = res.get(c, F(0)) + q
    return {"res": res, "present": present, "nulls": nulls, "virt_nulls": virt_nulls, "any_cost": any_cost,
            "n": len(x["posts"])}


def env_after(case):
    """display precision per commodity once the transaction has been parsed"""
    env = dict(case.get("warm") or {})
    for p in case["xact"]["posts"]:
        a = p["amount"]
        if a is not None and a["comm"]:
            env[a["comm"]] = max(env.get(a["comm"], 0), a["prec"])
    return env


def classify(case):
    """What the PROPERTIES (C01/C02 text) say about this transaction, or None
    where they do not decide (residual between half a display unit and one
    display unit, implicit two-commodity rate, null amounts on plain virtual
    postings, amounts without commodity, cost in the amount's own commodity …):
      exact     every commodity sums to exactly 0                      -> accepted
      within    0 < |residual| < half a display unit everywhere        -> accepted
      off       |residual| >= one display unit somewhere               -> 'Transaction does not balance'
      one-null  exactly one elided must-balance amount                 -> accepted, negation inferred
      two-nulls two or more elided must-balance amounts                -> error
      bucket    one posting and an `A` account in force                -> accepted, negation on the bucket
    """
    d = describe(case)
    posts = case["xact"]["posts"]
    if d["virt_nulls"]:
        return None
    if any(p["amount"] is not None and not p["amount"]["comm"] for p in posts):
        return None
    if any(p["cost"] is not None and p["amount"] is not None and p["cost"]["comm"] == p["amount"]["comm"] for p in posts):
        return None
    if any(p["cost"] is not None and not p["cost"]["comm"] for p in posts):
        return None
    if len(d["nulls"]) >= 2:
        return "two-nulls"
    mb_amounts = [p for p in posts if p["kind"] != "virtual" and p["amount"] is not None]
    if case.get("bucket") and d["n"] == 1 and mb_amounts:
        return "bucket"
    if len(d["nulls"]) == 1:
        return "one-null" if mb_amounts else None
    if not any(p["amount"] is not None for p in posts):
        return None
    if all(q == 0 for q in d["res"].values()):
        return "exact"
    env = env_after(case)
    units = {c: abs(q) * 10 ** env.get(base_of(c), 0) for c, q in d["res"].items()}
    if all(u * 2 < 1 for u in units.values()):
        return "within"
    nz = [c for c, q in d["res"].items() if q != 0]
    implicit = (not d["any_cost"]) and len(set(describe_entries(case))) == 2 and len(nz) == 2
    if implicit:
        return None
    if any(u >= 1 for u in units.values()):
        return "off"
    return None


def describe_entries(case):
    """commodities that get an entry in the residual balance (real-zero amounts do not)"""
    out = []
    for p in case["xact"]["posts"]:
        if p["kind"] == "virtual" or p["amount"] is None:
            continue
        if p["cost"] is not None:
            c, q = p["cost"]["comm"], cost_total(p)
        else:
            c, q = lot_key(p["amount"]), jgen.amt_q(p["amount"])
        if q != 0 and c not in out:
            out.append(c)
    return out


def half_unit_tie(case):
    """some residual is exactly half a display unit: `%.*RNf` of MPFR's binary
    approximation decides, the model rounds half-to-even; not compared."""
    d = describe(case)
    env = env_after(case)
    for c, q in d["res"].items():
        if q != 0 and abs(q) * 10 ** env.get(base_of(c), 0) * 2 == 1:
            return True
    return False


# ---------------------------------------------------------------------------
# rendering and running


def lot_text(lot, comms):
    t = ""
    if lot.get("price") is not None:
        pr = jgen.render_amount(lot["price"], comms)
        if lot.get("fixated"):
            pr = "=" + pr
        t += " {{%s}}" % pr if lot.get("total") else " {%s}" % pr
    if lot.get("date") is not None:
        t += " [" + jgen.date_text(lot["date"]) + "]"
    if lot.get("tag"):
        t += " (" + lot["tag"] + ")"
    return t


def render_post(p, comms):
    lot = (p.get("amount") or {}).get("lot")
    if not lot:
        return jgen.render_post(p, comms)
    t = jgen.render_post(dict(p, cost=None, note="", **{"assert": None}), comms) + lot_text(lot, comms)
    if p["cost"]:
        t += (" @ " if p["cost"]["per_unit"] else " @@ ") + jgen.render_amount(p["cost"], comms)
    return t


def render_xact(x, comms):
    head = jgen.render_xact(dict(x, posts=[]), comms)[0]
    return [head] + [render_post(p, comms) for p in x["posts"]]


def lot_key(a):
    """commodity key of a written amount (annotated commodity when it carries a lot)"""
    lot = a.get("lot")
    if not lot:
        return a["comm"]
    ptxt = ""
    if lot.get("price") is not None:
        pq = jgen.amt_q(lot["price"])
        if lot.get("total"):
            pq = pq / abs(jgen.amt_q(a))
        ptxt = "%d/%d %s" % (pq.numerator, pq.denominator, lot["price"]["comm"])
    return enc_lot(a["comm"], ptxt, jgen.date_text(lot["date"]) if lot.get("date") is not None else "", lot.get("tag") or "")


def lot_unit_price(a):
    lot = a.get("lot")
    if not lot or lot.get("price") is None:
        return None
    pq = jgen.amt_q(lot["price"])
    if lot.get("total"):
        pq = pq / abs(jgen.amt_q(a))
    return pq, lot["price"]["comm"]


def render_items(items, comms):
    """items: list of ("bucket", account) | ("xact", xact AST) -> journal text"""
    out = []
    for it in items:
        kind, v = it[0], it[1]
        if kind == "bucket":
            how = it[2] if len(it) > 2 else "A"
            if how == "A":
                out.append("A " + v)
            elif how == "bucket":
                out.append("bucket " + v)
            else:
                out.append("account " + v)
                out.append("    default")
            out.append("")
        else:
            lines = render_xact(v, comms)
            v["line"] = len(out) + 1
            for i, p in enumerate(v["posts"]):
                p["line"] = len(out) + 2 + i
            out += lines
            v["end_line"] = len(out)
            out.append("")
    return "\n".join(out) + "\n"


def warm_xact(warm):
    ps = []
    for cname, dec in sorted(warm.items()):
        c = CMAP[cname]
        ps.append(post("Warm:A", amount=jgen.amt(F(0), c, dec)))
        ps.append(post("Warm:B", amount=jgen.amt(F(0), c, dec)))
    return xact(ps, date=jgen.day_of(2019, 1, 1), payee="warm")


BUCKET_HOWS = ("A", "bucket", "account")
BUCKET_ACCOUNTS = ["Assets:Bucket", "Assets:Cash", "Assets:Bank", "Equity:Opening"]


def case_items(case):
    """directives and transactions of a case: `decls` = [(spelling, account), …] default-account declarations in
    sequence (the last one is case["bucket"]), optionally with a transaction on `Warm:` accounts between them"""
    items = []
    decls = case.get("decls")
    if decls:
        for k, (how, acct) in enumerate(decls):
            if k and case.get("between"):
                items.append(("xact", warm_xact({"AAA": 0})))
            items.append(("bucket", acct, how))
    elif case.get("bucket"):
        items.append(("bucket", case["bucket"], "A"))
    if case.get("warm"):
        items.append(("xact", warm_xact(case["warm"])))
    items.append(("xact", case["xact"]))
    return items


def case_text(case):
    return render_items(case_items(case), POOL)


def split_comm(text):
    """printed (annotated) commodity -> (base, has_price, date text, tag)"""
    t = text.strip()
    base, rest = t, ""
    if t.startswith('"'):
        k = t.find('"', 1)
        base, rest = t[1:k], t[k + 1:]
    else:
        for mark in (" {", " [", " ("):
            k = t.find(mark)
            if k >= 0 and (len(base) > k):
                base, rest = t[:k], t[k:]
        base = base.strip()
    has_price, date, tag = False, "", ""
    r = rest.strip()
    while r:
        if r[0] == "{":
            k = r.find("}")
            has_price = True
            r = r[k + 1:].strip()
        elif r[0] == "[":
            k = r.find("]")
            date = r[1:k]
            r = r[k + 1:].strip()
        elif r[0] == "(":
            k = r.find(")")
            tag = r[1:k]
            r = r[k + 1:].strip()
        else:
            break
    return base, has_price, date, tag


def enc_lot(base, price, date, tag):
    """the commodity key of Model/Finalize.lean (= Model/Reports.lean): BASE{num/den SYM}[date](tag)"""
    if not (price or date or tag):
        return base
    return "%s{%s}[%s](%s)" % (base, price, date, tag)


def base_of(key):
    k = key.find("{")
    return key if k < 0 else key[:k]


def parse_vr_amount(s, lot_price=None):
    """`A:num/den:prec:keep:commodity[ {annotation}…]` (+ verif_rational of its lot price)
    -> (Fraction, prec, keep, commodity key); without a lot price the key is the base commodity"""
    if not s.startswith("A:"):
        return ("?", s)
    q, prec, keep, comm = s[2:].split(":", 3)
    base, has_price, date, tag = split_comm(comm)
    n, d = q.split("/")
    key = base
    if lot_price is not None:
        ptxt = ""
        if has_price and lot_price.startswith("A:"):
            pq, pp, pk, pc = lot_price[2:].split(":", 3)
            pn, pd = pq.split("/")
            f = F(int(pn), int(pd))
            ptxt = "%d/%d %s" % (f.numerator, f.denominator, split_comm(pc)[0])
        key = enc_lot(base, ptxt, date, tag)
    return (F(int(n), int(d)), int(prec), int(keep), key)


def parse_vr_balance(s):
    """verif_rational of a total -> {commodity: Fraction} without zero entries"""
    s = s.strip()
    if s in ("", "N", "I:0"):
        return {}
    tag, _, rest = s.partition(":")
    if tag == "A":
        parts = [rest]
    elif tag == "B":
        parts = rest.split(";") if rest else []
    elif tag == "I":
        return {"": F(int(rest))} if int(rest) else {}
    else:
        return {"?": s}
    out = {}
    for p in parts:
        q, prec, keep, comm = parse_vr_amount("A:" + p)
        if q != 0:
            out[comm] = out.get(comm, F(0)) + q
    return out


def ledger_kind(stderr):
    if "Transaction does not balance" in stderr:
        return "unbalanced"
    if "Only one posting with null amount allowed per transaction" in stderr:
        return "two-nulls"
    if "Posting with null amount's account may be misspelled" in stderr:
        return "misspelled"
    if "A posting's cost must be of a different commodity than its amount" in stderr:
        return "same-comm-cost"
    if "There cannot be null amounts after balancing a transaction" in stderr:
        return "null-after"
    if "Cannot reduce an uninitialized amount" in stderr:
        return "uninit"
    return "other:" + (stderr.strip().split("\n")[-1][:80] if stderr.strip() else "")


def parse_rows(out):
    rows = []
    for line in out.split("\n"):
        if not line:
            continue
        f = line.split("|")
        if len(f) != 8:
            rows.append(("?", line))
            continue
        acct = f[0]
        kind = "real"
        if acct.startswith("(") and acct.endswith(")"):
            kind, acct = "virtual", acct[1:-1]
        elif acct.startswith("[") and acct.endswith("]"):
            kind, acct = "bvirtual", acct[1:-1]
        if acct.startswith("Warm:"):
            continue
        a = parse_vr_amount(f[1], f[6])
        cost = parse_vr_amount(f[5], f[7]) if f[4] == "true" else None
        rows.append((acct, kind, a, f[2] == "true", f[3] == "true", cost))
    return rows


def _s(x):
    return x.decode("utf-8", "replace") if isinstance(x, (bytes, bytearray)) else (x or "")


def _ledger(args, tries=3):
    """vflib.ledger_run with retries on a timeout (a loaded machine is not a finding)"""
    t = 30
    for _ in range(tries):
        rc, out, err = vflib.ledger_run(args, timeout=t)
        if rc is not None:
            return rc, _s(out), _s(err)
        t *= 3
    return None, _s(out), _s(err)


def run_ledger_text(text, extra_cmds=()):
    """reg rows of one journal text (+ optional further commands on the same file).
    Returns {"rc", "rows", "kind", "stderr", "nerr", "extra": [(rc, out, err)]}"""
    with tempfile.NamedTemporaryFile("w", suffix=".dat", delete=False, encoding="utf-8") as f:
        f.write(text)
        path = f.name
    try:
        rc, out, err = _ledger(["-f", path, "reg", "--lots", "--empty", "--format", REG_FMT])
        extra = [_ledger(["-f", path] + list(c)) for c in extra_cmds]
    finally:
        os.unlink(path)
    res = {"rc": rc, "stdout": out, "stderr": err.replace(path, "J"), "nerr": err.count("Error: "), "extra": extra}
    if rc == 0:
        res["kind"] = "ok"
        res["rows"] = parse_rows(out)
    else:
        res["kind"] = ledger_kind(err) if rc is not None and rc > 0 else "died:%s" % rc
        res["rows"] = []
    if rc is None or any(e[0] is None for e in extra):
        res["kind"] = "died:timeout"
    return res


def run_ledger(case):
    return run_ledger_text(case_text(case))


def model_line(case, enum="id"):
    env = ",".join("%s=%d" % kv for kv in sorted((case.get("warm") or {}).items()))
    return "xact.fin\t%s\t%s\t%s\t%s" % (json.dumps(case["xact"], ensure_ascii=False), case.get("bucket") or "", env, enum)


def parse_model_post(s):
    acct, kind, a, calc, ccalc, cost = s.split("|")
    def am(t):
        if t == "-":
            return None
        q, prec, keep, comm = t.split(":", 3)
        n, d = q.split("/")
        return (F(int(n), int(d)), int(prec), int(keep), comm)
    return (acct, kind, am(a), calc == "1", ccalc == "1", am(cost))


def parse_model(ans):
    f = ans.split("\t")
    if f[0] == "err":
        return {"kind": f[1], "rows": []}
    return {"kind": "ok", "rows": [parse_model_post(s) for s in f[1:]]}


def same_verdict(model, led):
    """model answer vs ledger observation"""
    if model["kind"] == "ignored":
        return led["kind"] == "ok" and led["rows"] == []
    if model["kind"] != led["kind"]:
        return False
    return model["rows"] == led["rows"]


def show_rows(rows):
    out = []
    for r in rows:
        if r[0] == "?":
            out.append(str(r))
            continue
        acct, kind, a, calc, ccalc, cost = r
        fa = lambda t: "-" if t is None else "%s:%d:%d:%s" % (t[0], t[1], t[2], t[3])
        out.append("%s|%s|%s|%d|%d|%s" % (acct, kind, fa(a), calc, ccalc, fa(cost)))
    return out


# ---------------------------------------------------------------------------
# generators


class TGen:
    def __init__(self, rng):
        self.rng = rng

    def comms(self, k):
        return self.rng.sample(POOL, k)

    def quantity(self, c, mag=None, dec=None):
        """non-zero quantity with `dec` decimals whose size is about 10^mag (mag in -8..20)"""
        r = self.rng
        dec = c.dec if dec is None else dec
        if mag is None:
            mag = r.choice([-8, -4, -2, -1, 0, 0, 1, 1, 2, 2, 3, 3, 4, 6, 9, 12, 15, 20])
        lo = max(mag, -dec)
        n = r.randint(1, 9) * 10 ** (lo + dec) + (r.randint(0, 10 ** (lo + dec) - 1) if lo + dec > 0 else 0)
        q = F(n, 10 ** dec)
        return q if r.random() < 0.5 else -q

    def kind(self, p_virtual=0.12, p_bvirtual=0.15):
        x = self.rng.random()
        return "virtual" if x < p_virtual else "bvirtual" if x < p_virtual + p_bvirtual else "real"

    def free_posts(self, n, cs, p_cost=0.2, kinds=True):
        r = self.rng
        ps = []
        for _ in range(n):
            c = r.choice(cs)
            dec = c.dec if r.random() < 0.8 else r.randint(0, min(8, c.dec + 2))
            q = self.quantity(c, dec=dec)
            p = post(r.choice(ACCOUNTS), self.kind() if kinds else "real", jgen.amt(q, c, dec),
                     state=r.choice([0, 0, 0, 1, 2]))
            if r.random() < p_cost:
                others = [x for x in POOL if x.name != c.name]
                cc = r.choice([x for x in cs if x.name != c.name] or others)
                cdec = cc.dec if r.random() < 0.7 else r.randint(0, 8)
                price = F(r.randint(1, 5000 * 10 ** cdec), 10 ** cdec)
                p["cost"] = dict(jgen.amt(price, cc, cdec), per_unit=r.random() < 0.6)
            ps.append(p)
        return ps

    def closing(self, ps, kind="real", account=None):
        """explicit postings that make the must-balance postings of ps sum to exactly zero"""
        case = {"xact": xact(ps)}
        d = describe(case)
        out = []
        for cname, q in sorted(d["res"].items()):
            if q == 0:
                continue
            c = CMAP[cname]
            dec = max(c.dec, decimals_needed(-q))
            out.append(post(account or self.rng.choice(ACCOUNTS), kind, jgen.amt(-q, c, dec)))
        return out

    def warm_for(self, cs, p=0.35):
        r = self.rng
        w = {}
        for c in cs:
            if r.random() < p:
                w[c.name] = r.randint(0, 8)
        return w

    def case(self, ps, tag, bucket=None, warm=None, shuffle=False):
        if shuffle:
            self.rng.shuffle(ps)
        x = xact(ps, state=self.rng.choice([0, 0, 1, 2]))
        return {"xact": x, "bucket": bucket, "warm": warm or {}, "tag": tag,
                "comms": sorted({p["amount"]["comm"] for p in ps if p["amount"]} |
                                {p["cost"]["comm"] for p in ps if p["cost"]})}

    # -- families ------------------------------------------------------------
    def balanced(self):
        r = self.rng
        cs = self.comms(r.randint(1, 5))
        n = r.randint(1, 6)
        ps = self.free_posts(n, cs)
        ps += self.closing(ps, kind=r.choice(["real", "real", "bvirtual"]))
        if not [p for p in ps if p["kind"] != "virtual"]:
            ps.append(post(r.choice(ACCOUNTS), "real", amt(0, cs[0].name)))
        ps = ps[:8] if len(ps) <= 8 else ps
        return self.case(ps, "balanced", warm=self.warm_for(cs), shuffle=True,
                         bucket=BUCKET if r.random() < 0.2 else None)

    def off_by(self):
        r = self.rng
        c0 = self.balanced()
        ps = c0["xact"]["posts"]
        u = r.choice([1, -1, 1, -1, 2, -3, 10, -1000, 10 ** 9])
        cands = [i for i, p in enumerate(ps) if p["kind"] != "virtual" and p["amount"] is not None and p["cost"] is None]
        if cands and r.random() < 0.7:
            i = r.choice(cands)
            a = ps[i]["amount"]
            q = jgen.amt_q(a) + u
            ps[i]["amount"] = jgen.amt(q, CMAP[a["comm"]], a["prec"])
        else:
            c = r.choice(POOL)
            ps.insert(r.randint(0, len(ps)), post(r.choice(ACCOUNTS), r.choice(["real", "bvirtual"]), amt(u, c.name)))
        c0["tag"] = "off"
        c0["comms"] = sorted({p["amount"]["comm"] for p in ps if p["amount"]} | {p["cost"]["comm"] for p in ps if p["cost"]})
        return c0

    def one_null(self, n_other=None, ncomm=None, pos=None, bucket=None):
        r = self.rng
        cs = self.comms(ncomm or r.randint(1, 4))
        n = n_other or r.randint(1, 6)
        ps = self.free_posts(n, cs, p_cost=0.25)
        if not [p for p in ps if p["kind"] != "virtual"]:
            ps[0]["kind"] = "real"
        null = post(r.choice(ACCOUNTS), r.choice(["real", "real", "real", "bvirtual"]), None, state=r.choice([0, 0, 1, 2]))
        pos = r.randint(0, len(ps)) if pos is None else min(pos, len(ps))
        ps.insert(pos, null)
        return self.case(ps, "one-null", warm=self.warm_for(cs, 0.2),
                         bucket=(BUCKET if r.random() < 0.5 else None) if bucket is None else bucket)

    def two_nulls(self):
        r = self.rng
        c = self.one_null()
        ps = c["xact"]["posts"]
        acct = r.choice(ACCOUNTS + BAD_ACCOUNTS)
        ps.insert(r.randint(0, len(ps)), post(acct, r.choice(["real", "bvirtual"]), None))
        if r.random() < 0.3:
            ps.insert(r.randint(0, len(ps)), post(r.choice(BAD_ACCOUNTS), "real", None))
        c["tag"] = "two-nulls"
        return c

    def single(self):
        """one posting, with or without a bucket"""
        r = self.rng
        cs = self.comms(2)
        ps = self.free_posts(1, cs, p_cost=0.3)
        return self.case(ps, "single", bucket=BUCKET if r.random() < 0.75 else None, warm=self.warm_for(cs, 0.2))

    def implicit(self):
        """two commodities, no cost, no null posting: implicit exchange rate"""
        r = self.rng
        ca, cb = self.comms(2)
        na, nb = r.randint(1, 3), r.randint(1, 3)
        ps = []
        sa = r.choice([1, -1])
        sb = -sa if r.random() < 0.8 else sa
        for _ in range(na):
            q = abs(self.quantity(ca, mag=r.choice([-1, 0, 1, 2, 4]))) * (sa if r.random() < 0.85 else -sa)
            ps.append(post(r.choice(ACCOUNTS), self.kind(0.08, 0.1), jgen.amt(q, ca)))
        for _ in range(nb):
            q = abs(self.quantity(cb, mag=r.choice([-1, 0, 1, 2, 4]))) * (sb if r.random() < 0.85 else -sb)
            ps.append(post(r.choice(ACCOUNTS), self.kind(0.08, 0.1), jgen.amt(q, cb)))
        if r.random() < 0.15:     # a zero amount of a third commodity on top: the hash order decides which side is priced
            cz = [c for c in POOL if c.name not in (ca.name, cb.name)][0]
            ps.insert(0, post(r.choice(ACCOUNTS), "real", jgen.amt(F(0), cz)))
            tag = "implicit-zero-top"
        else:
            r.shuffle(ps)
            tag = "implicit"
        return self.case(ps, tag, warm=self.warm_for([ca, cb], 0.3))

    def sub_unit(self):
        """costs with more decimals than the cost commodity shows; the closing
        posting is the rounded residual (accepted: residual below half a display
        unit) or one display unit further off (rejected)"""
        r = self.rng
        ca, cb = self.comms(2)
        k = r.randint(1, 4)
        ps = []
        for _ in range(k):
            q = F(r.randint(1, 999), 10 ** r.choice([0, 0, ca.dec]))
            price = F(r.randint(1, 99999), 10 ** (cb.dec + r.randint(1, 4)))
            p = post(r.choice(ACCOUNTS), r.choice(["real", "real", "bvirtual"]), jgen.amt(q * r.choice([1, -1]), ca,
                     decimals_needed(q)))
            pr = jgen.amt(price, cb, decimals_needed(price, lo=cb.dec + 1))
            p["cost"] = dict(pr, per_unit=True)
            ps.append(p)
        d = describe({"xact": xact(ps)})
        res = d["res"].get(cb.name, F(0))
        unit = F(1, 10 ** cb.dec)
        rounded = F(round(res / unit)) * unit
        delta = r.choice([0, 0, 0, 1, -1, 2])
        close = -(rounded + delta * unit)
        ps.append(post(r.choice(ACCOUNTS), "real", jgen.amt(close, cb, cb.dec)))
        r.shuffle(ps)
        return self.case(ps, "sub-unit" if delta == 0 else "sub-unit-off")

    def cancelling(self):
        """the non-elided postings cancel exactly in every commodity (or in some and not in
        others); interleaved or grouped by commodity; an elided posting first / middle / last,
        or none (control), or two (control).  balance_t::operator+= keeps a cancelled
        commodity as a zero entry, so the residual handed to add_balancing_post can hold
        several zero entries."""
        r = self.rng
        ncomm = r.randint(1, 3)
        cs = self.comms(ncomm)
        groups = []
        for c in cs:
            k = r.choice([2, 2, 2, 3])
            qs = [abs(self.quantity(c, mag=r.choice([-2, 0, 1, 2, 4, 9]))) for _ in range(k - 1)]
            qs = [q * r.choice([1, -1]) for q in qs]
            qs.append(-sum(qs))
            groups.append([post(r.choice(ACCOUNTS), r.choice(["real", "real", "bvirtual"]),
                                jgen.amt(q, c, max(c.dec, decimals_needed(q)))) for q in qs])
        mode = r.choice(["interleaved", "interleaved", "grouped", "shuffled"])
        ps = []
        if mode == "grouped":
            for gr in groups:
                ps += gr
        elif mode == "interleaved":
            i = 0
            while any(groups):
                if groups[i % len(groups)]:
                    ps.append(groups[i % len(groups)].pop(0))
                i += 1
        else:
            for gr in groups:
                ps += gr
            r.shuffle(ps)
        extra = r.random() < 0.35
        if extra:       # some commodities cancel, this one does not
            others = [c for c in POOL if c.name not in [x.name for x in cs]]
            c = r.choice(others)
            ps.insert(r.randint(0, len(ps)), post(r.choice(ACCOUNTS), "real", jgen.amt(self.quantity(c, mag=1), c)))
        if r.random() < 0.15:
            ps.insert(r.randint(0, len(ps)), post(r.choice(ACCOUNTS), "virtual", jgen.amt(self.quantity(cs[0], mag=1), cs[0])))
        x = r.random()
        nnull = 1 if x < 0.75 else 0 if x < 0.9 else 2
        if nnull == 0 and extra:
            nnull = 1
        for _ in range(nnull):
            pos = r.choice([0, len(ps), r.randint(0, len(ps))])
            ps.insert(pos, post(r.choice(ACCOUNTS), r.choice(["real", "real", "bvirtual"]), None))
        return self.case(ps, "cancel:%s:%dc:%dn%s" % (mode, ncomm, nnull, ":extra" if extra else ""),
                         bucket=BUCKET if r.random() < 0.2 else None, warm=self.warm_for(cs, 0.2))

    # -- lots -----------------------------------------------------------------
    def lot_amount(self, stock, money, q, kind=None):
        """an amount of `stock` with a lot annotation priced in `money`"""
        r = self.rng
        kind = kind or r.choice(["price", "price", "price", "price-date", "price-date-tag", "total", "fixated", "date", "tag",
                                 "price-tag", "other-comm"])
        a = jgen.amt(q, stock, max(stock.dec, decimals_needed(q)))
        pdec = money.dec if r.random() < 0.8 else r.randint(0, min(8, money.dec + 2))
        price = F(r.randint(1, 300 * 10 ** pdec), 10 ** pdec)
        lot = {"price": None, "total": False, "fixated": False, "date": None, "tag": ""}
        if kind.startswith("price") or kind == "fixated":
            lot["price"] = jgen.amt(price, money, pdec)
            lot["fixated"] = kind == "fixated"
        if kind == "total":
            tot = price * abs(q)
            d = decimals_needed(tot)
            if d is None or d > 12:
                tot = F(r.randint(1, 10 ** 6), 100)
                d = 2
            lot["price"] = jgen.amt(tot, money, max(d, 0))
            lot["total"] = True
        if kind == "other-comm":
            oc = r.choice([c for c in POOL if c.name not in (stock.name, money.name)])
            lot["price"] = jgen.amt(F(r.randint(1, 999), 10 ** min(oc.dec, 2)), oc, min(oc.dec, 2))
        if "date" in kind:
            lot["date"] = jgen.day_of(2018, 1, 1) + r.randint(0, 700)
        if "tag" in kind:
            lot["tag"] = r.choice(["lotA", "b2", "x"])
        a["lot"] = lot
        return a

    def lots(self):
        """purchases and sales of lots: `{price}`, `{{total}}`, `{=fixed}`, `[date]`, `(tag)` with and
        without `@` / `@@`, sells (negative quantities), a gains posting or an elided amount next to them"""
        r = self.rng
        stock, money = self.comms(2)
        n = r.choice([1, 1, 2, 2, 3])
        ps = []
        for _ in range(n):
            q = abs(self.quantity(stock, mag=r.choice([0, 1, 2, 4]), dec=stock.dec if r.random() < 0.8 else 0))
            if r.random() < 0.45:
                q = -q
            a = self.lot_amount(stock, money, q)
            p = post(r.choice(ACCOUNTS), self.kind(0.07, 0.12), a, state=r.choice([0, 0, 1, 2]))
            x = r.random()
            lp = lot_unit_price(a)
            if x < 0.55:
                cdec = money.dec if r.random() < 0.8 else r.randint(0, 6)
                if lp is not None and lp[1] == money.name and r.random() < 0.4 and decimals_needed(lp[0]) is not None \
                        and decimals_needed(lp[0]) <= 8:
                    cq, cdec = lp[0], max(money.dec, decimals_needed(lp[0]))      # sold / bought at the lot price
                else:
                    cq = F(r.randint(1, 400 * 10 ** cdec), 10 ** cdec)
                per_unit = r.random() < 0.7
                if not per_unit:
                    cq = cq * abs(q)
                    cdec = max(cdec, decimals_needed(cq) or 0)
                p["cost"] = dict(jgen.amt(cq, money, cdec), per_unit=per_unit)
            ps.append(p)
        if r.random() < 0.3:
            ps.append(post(r.choice(ACCOUNTS), "real", jgen.amt(self.quantity(money, mag=2), money)))
        mode = r.choice(["null", "null", "explicit", "explicit", "explicit-off", "none"])
        totals = any((p["amount"].get("lot") or {}).get("total") for p in ps)
        if mode.startswith("explicit") and totals:
            mode = "null"
        if mode == "null":
            ps.insert(r.randint(0, len(ps)), post(r.choice(ACCOUNTS), r.choice(["real", "real", "bvirtual"]), None))
        elif mode.startswith("explicit"):
            d = describe({"xact": xact(ps)})
            keyed = {}
            for p in ps:
                if p["amount"] is not None:
                    keyed[lot_key(p["amount"])] = p["amount"]
            first = True
            for key, q in sorted(d["res"].items()):
                if q == 0:
                    continue
                delta = 0
                if mode == "explicit-off" and first:
                    delta = r.choice([1, -1, 2])
                first = False
                if key in keyed and keyed[key].get("lot"):
                    src = keyed[key]
                    c = CMAP[src["comm"]]
                    qq = -q + delta
                    a = jgen.amt(qq, c, max(c.dec, decimals_needed(qq)))
                    a["lot"] = dict(src["lot"])
                else:
                    c = CMAP[key]
                    qq = -q + delta
                    a = jgen.amt(qq, c, max(c.dec, decimals_needed(qq)))
                ps.append(post(r.choice(ACCOUNTS), "real", a))
            r.shuffle(ps)
        return self.case(ps, "lots:" + mode, warm=self.warm_for([stock, money], 0.25),
                         bucket=BUCKET if r.random() < 0.15 else None)

    def bucket_decls(self):
        """1-3 default-account declarations in sequence (`A X`, `bucket X`, `account X` + `default`, any mix;
        the last one wins), optionally with a transaction between them, then a single-posting transaction —
        or, as a control, a transaction with an elided posting, for which the bucket must NOT be used"""
        r = self.rng
        cs = self.comms(2)
        control = r.random() < 0.2
        if control:
            c = self.one_null(n_other=r.randint(1, 3), ncomm=r.randint(1, 2), bucket=None)
            ps = c["xact"]["posts"]
        else:
            ps = self.free_posts(1, cs, p_cost=0.35)
            if r.random() < 0.1:
                ps[0]["kind"] = "virtual"
        n = r.choice([1, 2, 2, 3, 3])
        accts = r.sample(BUCKET_ACCOUNTS, n)
        decls = [(r.choice(BUCKET_HOWS), a) for a in accts]
        case = self.case(ps, "decls:%s%s" % ("+".join(h for h, _ in decls), ":control" if control else ""),
                         bucket=decls[-1][1], warm=self.warm_for(cs, 0.2))
        case["decls"] = decls
        case["between"] = r.random() < 0.5
        return case

    def oddities(self):
        """null amount on a plain virtual posting, all-null transactions, amounts
        without commodity, cost in the amount's own commodity, zero amounts"""
        r = self.rng
        w = r.choice(["virt-null", "all-null", "no-comm", "same-comm-cost", "zeros", "virt-null-2comm", "only-virtual"])
        c1, c2 = self.comms(2)
        if w == "virt-null":
            q = self.quantity(c1)
            ps = [post("A", "real", jgen.amt(q, c1)), post("B", "real", jgen.amt(-q, c1)), post("V", "virtual", None)]
            r.shuffle(ps)
        elif w == "virt-null-2comm":
            ps = [post("A", "real", jgen.amt(abs(self.quantity(c1)), c1)), post("V", "virtual", None),
                  post("B", "real", jgen.amt(-abs(self.quantity(c2)), c2))]
        elif w == "all-null":
            ps = [post("A", r.choice(["real", "virtual", "bvirtual"]), None)]
            if r.random() < 0.5:
                ps.append(post("V", "virtual", None))
        elif w == "no-comm":
            q = F(r.randint(1, 10 ** 6), 10 ** r.randint(0, 4))
            nc = jgen.Commodity("", 0)
            ps = [post("A", "real", jgen.amt(q, nc, decimals_needed(q))), post("B", r.choice(["real", "bvirtual"]),
                  jgen.amt(-q, nc, decimals_needed(q)) if r.random() < 0.6 else None)]
            if r.random() < 0.3:
                ps.append(post("C", "real", jgen.amt(self.quantity(c1), c1)))
                ps.append(post("D", "real", None) if ps[1]["amount"] is not None else post("D", "real", jgen.amt(F(3), c2)))
        elif w == "same-comm-cost":
            q = self.quantity(c1)
            p = post("A", "real", jgen.amt(q, c1))
            p["cost"] = dict(jgen.amt(F(2), c1), per_unit=True)
            ps = [p, post("B", "real", None)]
        elif w == "only-virtual":
            ps = [post("V", "virtual", jgen.amt(self.quantity(c1), c1))]
            if r.random() < 0.5:
                ps.append(post("W", "virtual", jgen.amt(self.quantity(c2), c2)))
        else:
            ps = [post("A", "real", jgen.amt(F(0), c1)), post("B", r.choice(["real", "bvirtual"]), jgen.amt(F(0), c2)
                  if r.random() < 0.5 else None)]
            if r.random() < 0.5:
                ps.append(post("C", "real", jgen.amt(F(0), c1, c1.dec + 1)))
        return self.case(ps, "odd:" + w, bucket=BUCKET if r.random() < 0.3 else None)


def exhaustive_small(mags=(F(1, 100), F(1), F(37), F(10 ** 6), F(10 ** 15)), kinds=("real", "virtual", "bvirtual")):
    """<= 3 postings x 2 commodities x 3 kinds x {elided, explicit} x 5 magnitudes x {balanced, +1, -1 unit}:
    k in {1,2} free postings (kind x commodity x magnitude, alternating sign), closed by an
    elided posting or by explicit balancing postings perturbed by 0/+1/-1 unit."""
    ca, cb = CMAP["EUR"], CMAP["AAA"]
    free = [(k, c, m) for k in kinds for c in (ca, cb) for m in mags]
    cases = []

    def mk(ps, tag):
        return {"xact": xact(ps), "bucket": None, "warm": {}, "tag": tag,
                "comms": sorted({p["amount"]["comm"] for p in ps if p["amount"]})}

    def q_of(c, m):
        q = m if (m * 10 ** c.dec).denominator == 1 else F(1)
        return q

    for nfree in (1, 2):
        for combo in itertools.product(free, repeat=nfree):
            ps = []
            for j, (k, c, m) in enumerate(combo):
                q = q_of(c, m) * (1 if j % 2 == 0 else -1)
                ps.append(post("Acc:%d" % j, k, jgen.amt(q, c)))
            d = describe({"xact": xact(ps)})
            # elided closing posting (real and bracketed)
            for nk in ("real", "bvirtual"):
                if nfree == 2 and nk == "bvirtual" and combo[0][2] != mags[1]:
                    continue
                for pos in range(len(ps) + 1):
                    qs = [dict(p) for p in ps]
                    qs.insert(pos, post("Acc:N", nk, None))
                    if len(qs) <= 3:
                        cases.append(mk(qs, "exh:elided"))
            # explicit closing postings, perturbed
            nz = [(cn, q) for cn, q in sorted(d["res"].items()) if q != 0]
            if len(ps) + max(1, len(nz)) > 3:
                continue
            for delta in (0, 1, -1):
                qs = [dict(p) for p in ps]
                if nz:
                    for j, (cn, q) in enumerate(nz):
                        qq = -q + (delta if j == 0 else 0)
                        qs.append(post("Acc:C", "real", jgen.amt(qq, CMAP[cn])))
                else:
                    if delta == 0:
                        continue
                    qs.append(post("Acc:C", "real", jgen.amt(F(delta), ca)))
                cases.append(mk(qs, "exh:explicit%+d" % delta))
    return cases


# ---------------------------------------------------------------------------
# journals


def gen_journal(rng, n, p_bad=0.0, p_bucket=0.15, exact_only=False):
    g = TGen(rng)
    items = []
    day = jgen.day_of(2020, 1, 1)
    for i in range(n):
        if rng.random() < p_bucket:
            for _ in range(rng.choice([1, 1, 2, 3])):
                items.append(("bucket", rng.choice(BUCKET_ACCOUNTS), rng.choice(BUCKET_HOWS)))
        x = rng.random()
        if x < p_bad:
            c = rng.choice([g.off_by, g.two_nulls])()
        elif exact_only:
            c = rng.choice([g.balanced, g.balanced, g.one_null, g.single, g.cancelling])()
            if classify(c) == "two-nulls":
                c = g.balanced()
        else:
            c = rng.choice([g.balanced, g.balanced, g.one_null, g.single, g.implicit, g.sub_unit, g.cancelling])()
            if classify(c) == "two-nulls":
                c = g.balanced()
        xa = c["xact"]
        day += rng.randint(0, 3)
        xa["date"] = day
        xa["payee"] = "p%d" % i
        items.append(("xact", xa))
    return items


def gen_lot_journal(rng, n):
    """buys, then sells against the earlier lots (same annotation text), gains posted or elided"""
    g = TGen(rng)
    stock, money = g.comms(2)
    items = []
    day = jgen.day_of(2020, 1, 1)
    lots = []
    for i in range(n):
        day += rng.randint(0, 5)
        if not lots or rng.random() < 0.5:
            q = abs(g.quantity(stock, mag=rng.choice([0, 1, 2]), dec=0))
            pdec = money.dec
            price = F(rng.randint(1, 200 * 10 ** pdec), 10 ** pdec)
            lot = {"price": jgen.amt(price, money, pdec), "total": False, "fixated": False,
                   "date": day if rng.random() < 0.6 else None, "tag": rng.choice(["", "", "l%d" % i])}
            lots.append((lot, q))
            a = jgen.amt(q, stock, stock.dec)
            a["lot"] = dict(lot)
            p = post("Assets:Broker", "real", a)
            if rng.random() < 0.5:
                p["cost"] = dict(jgen.amt(price, money, pdec), per_unit=True)
            ps = [p, post("Assets:Cash", "real", None)]
        else:
            k = rng.randrange(len(lots))
            lot, have = lots[k]
            q = min(have, abs(g.quantity(stock, mag=0, dec=0)))
            a = jgen.amt(-q, stock, stock.dec)
            a["lot"] = dict(lot)
            sell = F(rng.randint(1, 300 * 10 ** money.dec), 10 ** money.dec)
            p = post("Assets:Broker", "real", a)
            p["cost"] = dict(jgen.amt(sell, money, money.dec), per_unit=True)
            ps = [p, post("Assets:Cash", "real", jgen.amt(sell * q, money, max(money.dec, decimals_needed(sell * q)))),
                  post("Income:Gains", "real", None)]
            if have - q > 0:
                lots[k] = (lot, have - q)
            else:
                lots.pop(k)
        items.append(("xact", xact(ps, date=day, payee="lot%d" % i)))
    return items


def gen_bucket_journal(rng, n):
    """declarations (all spellings) placed before and between single-posting transactions, each on its own
    account, and now and then an elided-posting transaction as a control"""
    g = TGen(rng)
    items = []
    day = jgen.day_of(2020, 3, 1)
    if rng.random() < 0.8:
        items.append(("bucket", rng.choice(BUCKET_ACCOUNTS), rng.choice(BUCKET_HOWS)))
    for i in range(n):
        for _ in range(rng.choice([0, 0, 1, 1, 2, 3])):
            items.append(("bucket", rng.choice(BUCKET_ACCOUNTS), rng.choice(BUCKET_HOWS)))
        day += rng.randint(0, 3)
        c = rng.choice(POOL)
        q = g.quantity(c, mag=rng.choice([0, 1, 2, 3]))
        ps = [post("Exp:N%d" % i, rng.choice(["real", "real", "bvirtual"]), jgen.amt(q, c))]
        if rng.random() < 0.25:
            cc = rng.choice([x for x in POOL if x.name != c.name])
            ps[0]["cost"] = dict(jgen.amt(F(rng.randint(1, 500), 100), cc, 2), per_unit=rng.random() < 0.6)
        if rng.random() < 0.2:
            ps.append(post("Ctl:N%d" % i, "real", None))
        items.append(("xact", xact(ps, date=day, payee="b%d" % i)))
    return items


def oracle_bucket_journal(items, led):
    """C02 on a journal of gen_bucket_journal: every single-posting transaction read while a default account is
    declared is followed by one calculated posting on the account of the LAST declaration before it, carrying the
    exact negation of its cost-or-amount; with an elided posting the bucket is not used"""
    if led["kind"].startswith("died"):
        return []
    bucket = None
    want = []
    rejected = False
    for it in items:
        if it[0] == "bucket":
            bucket = it[1]
            continue
        ps = it[1]["posts"]
        p = ps[0]
        if p["cost"] is not None:
            c, q = p["cost"]["comm"], cost_total(p)
        else:
            c, q = p["amount"]["comm"], jgen.amt_q(p["amount"])
        want.append((p["account"], jgen.amt_q(p["amount"]), p["amount"]["comm"], False))
        if len(ps) == 2:
            want.append((ps[1]["account"], -q, c, True))
        elif bucket is not None:
            want.append((bucket, -q, c, True))
        elif q != 0:
            rejected = True
    if rejected:
        return []
    if led["kind"] != "ok":
        return [("C02:bucket-rejected", "a journal of single-posting transactions under declared default accounts is rejected (%s)" % led["kind"])]
    got = [(r[0], r[2][0], base_of(r[2][3]), r[3]) for r in led["rows"] if r[0] != "?"]
    if got != want:
        for k, (a, b) in enumerate(zip(got + [None] * len(want), want)):
            if a != b:
                return [("C02:bucket-wrong-account" if a is not None and b is not None and a[1:] == b[1:] else "C02:bucket-not-negation",
                         "row %d is %s, the last declared default account requires %s" % (k, a, b))]
    return []


def run_bucket_journals(ctx, journals):
    if not journals:
        return
    leds = vflib.pmap(run_ledger_journal, journals)
    m1 = vflib.driver_run([journal_model_line(it, "id") for it in journals])
    for items, led, a1 in zip(journals, leds, m1):
        ctx.count()
        ctx.feature("bucket-journal")
        ctx.feature("bucket-declarations", len([1 for it in items if it[0] == "bucket"]))
        for it in items:
            if it[0] == "bucket":
                ctx.feature("decl:" + (it[2] if len(it) > 2 else "A"))
        if led["kind"] == "died:timeout":
            ctx.feature("ledger-timeout-not-compared")
            continue
        m = parse_journal_model(a1)
        if m["kind"] == "ok" and ((m["errors"] == 0 and led["rc"] == 0 and m["rows"] == led["rows"]) or
                                  (m["errors"] > 0 and led["rc"] not in (0, None) and led["nerr"] == m["errors"])):
            ctx.traces_validated += 1
        else:
            ctx.tie_broken("corr:journal.fin", "model and ledger disagree on\n%s\nmodel: %s\nledger: rc=%s %s" %
                           (led["text"], a1[:400], led["rc"], show_rows(led["rows"])))
            ctx.mism.append({"journal": led["text"], "model": a1[:1500], "ledger": {"rc": led["rc"], "rows": show_rows(led["rows"])}})
        for fp, what in oracle_bucket_journal(items, led):
            ctx.failing.append((fp, what, {"journal_text": led["text"], "items": items, "bucket_journal": True}, led))
        ctx.nontrivial(led["text"])


def journal_model_line(items, enum="id"):
    js = {"items": [({"bucket": it[1], "how": (it[2] if len(it) > 2 else "A")} if it[0] == "bucket" else {"xact": it[1]})
                    for it in items]}
    return "journal.fin\t%s\t%s" % (json.dumps(js, ensure_ascii=False), enum)


def parse_journal_model(ans):
    f = ans.split("\t")
    if f[0] != "ok":
        return {"kind": "err:" + "\t".join(f[1:])}
    rows = []
    for s in f[4:]:
        if s == "/":
            continue
        rows.append(parse_model_post(s))
    tot = {}
    for kv in (f[3].split(";") if f[3] else []):
        c, _, q = kv.rpartition("=")
        n, d = q.split("/")
        if int(n) != 0:
            tot[base_of(c)] = tot.get(base_of(c), F(0)) + F(int(n), int(d))     # reports strip lot annotations
    tot = {c: q for c, q in tot.items() if q != 0}
    return {"kind": "ok", "errors": int(f[1]), "accepted": int(f[2]), "total": tot, "rows": rows}


def run_ledger_journal(items):
    text = render_items(items, POOL)
    res = run_ledger_text(text, extra_cmds=[
        ["reg", "-B", "--empty", "--limit", LIMIT_MUST_BALANCE, "--format", "%(verif_rational(total))\n"],
        ["bal", "-B", "--empty", "--limit", LIMIT_MUST_BALANCE, "--format",
         "R|%(account)|%(verif_rational(total))\n%/T|%(verif_rational(total))|%(total)\n"],
        ["bal", "--real", "-B", "--format", "R|%(account)|%(verif_rational(total))\n%/T|%(verif_rational(total))|%(total)\n"]])
    res["text"] = text
    return res


# ---------------------------------------------------------------------------
# implementation-side oracles (plain Fractions on ledger's own output; no Lean)


def rows_residual(rows):
    """sum at cost over the must-balance rows ledger reports"""
    res = {}
    for r in rows:
        if r[0] == "?":
            return None
        acct, kind, a, calc, ccalc, cost = r
        if kind == "virtual":
            continue
        t = cost if cost is not None else a
        res[t[3]] = res.get(t[3], F(0)) + t[0]
    return res


def oracle_c01(case, led):
    """C01 on one transaction: [(fingerprint, what)] for every way ledger's
    observable behaviour contradicts the property."""
    out = []
    cls = classify(case)
    if led["kind"].startswith("died"):
        return out            # crashes are C11's subject
    if cls in ("exact", "within"):
        if led["kind"] != "ok":
            out.append(("C01:balanced-rejected" if cls == "exact" else "C01:within-precision-rejected",
                        "a transaction whose must-balance postings sum to %s at cost is rejected (%s)" %
                        ("exactly zero" if cls == "exact" else "less than half a display unit", led["kind"])))
        elif len(led["rows"]) != len(case["xact"]["posts"]):
            out.append(("C01:balanced-rows", "an accepted explicit transaction is reported with %d rows for %d postings" %
                        (len(led["rows"]), len(case["xact"]["posts"]))))
    if cls in ("one-null", "bucket") and led["kind"] != "ok":
        out.append(("C01:elided-rejected", "a transaction that balances by inference (one elided amount / bucket) is rejected (%s)" % led["kind"]))
    if cls == "off":
        if led["kind"] == "ok":
            out.append(("C01:unbalanced-accepted", "a transaction off by at least one display unit is accepted"))
        elif led["kind"] != "unbalanced":
            out.append(("C01:unbalanced-wrong-error", "an unbalanced transaction is rejected with %r instead of "
                        "'Transaction does not balance'" % led["kind"]))
        if led["stdout"].strip():
            out.append(("C01:rejected-in-report", "a report was printed although a transaction was rejected"))
        if led["rc"] == 0:
            out.append(("C01:status-zero", "exit status 0 although a transaction was rejected"))
    if led["kind"] == "ok" and led["rows"]:
        # whatever was accepted must balance at cost to within display precision
        res = rows_residual(led["rows"])
        env = env_after(case)
        if res is not None:
            for c, q in res.items():
                if c == "" and q != 0 or c != "" and abs(q) * 10 ** env.get(base_of(c), 0) * 2 > 1:
                    out.append(("C01:accepted-not-balanced", "accepted transaction sums to %s %s at cost (display precision %d)" %
                                (q, c, env.get(base_of(c), 0))))
                    break
            if cls in ("exact", "one-null", "bucket") and any(q != 0 for q in res.values()):
                out.append(("C01:accepted-not-exact", "accepted transaction without sub-unit costs does not sum to exactly zero: %s" %
                            {c: str(q) for c, q in res.items() if q != 0}))
    return out


def oracle_c02(case, led):
    out = []
    cls = classify(case)
    if led["kind"].startswith("died"):
        return out
    posts = case["xact"]["posts"]
    d = describe(case)
    if cls == "two-nulls":
        if led["kind"] not in ("two-nulls", "misspelled"):
            out.append(("C02:two-nulls-accepted" if led["kind"] == "ok" else "C02:two-nulls-wrong-error",
                        "two elided amounts give %r instead of the null-amount error" % led["kind"]))
        return out
    if cls not in ("one-null", "bucket"):
        return out
    if led["kind"] != "ok":
        out.append(("C02:elided-rejected" if cls == "one-null" else "C02:bucket-rejected",
                    "a transaction with one elided amount / a bucket is rejected (%s)" % led["kind"]))
        return out
    rows = led["rows"]
    n = len(posts)
    if any(r[0] == "?" for r in rows) or len(rows) < n:
        out.append(("C02:rows", "fewer rows than postings: %d < %d" % (len(rows), n)))
        return out
    if cls == "one-null":
        i = d["nulls"][0]
        nacct, nkind = posts[i]["account"], posts[i]["kind"]
        inferred = [rows[i]] + rows[n:]
    else:
        i = None
        nacct, nkind = case["bucket"], "real"
        inferred = rows[n:]
    # the written postings come back unchanged and unflagged
    for j, p in enumerate(posts):
        if j == i:
            continue
        r = rows[j]
        a = p["amount"]
        keeps_lot = a is not None and (p["cost"] is None or lot_unit_price(a) is not None)
        if (r[0], r[1]) != (p["account"], p["kind"]) or r[3] or a is None or \
                (r[2][0], base_of(r[2][3])) != (jgen.amt_q(a), a["comm"]) or (keeps_lot and r[2][3] != lot_key(a)):
            out.append(("C02:explicit-changed", "posting %d (%s) comes back as %s" % (j, p["account"], show_rows([r])[0])))
            return out
    want = {c: -q for c, q in d["res"].items()}
    got = {}
    for r in inferred:
        if (r[0], r[1]) != (nacct, nkind):
            out.append(("C02:inferred-account", "inferred posting on %s/%s instead of %s/%s" % (r[0], r[1], nacct, nkind)))
            return out
        if not r[3]:
            out.append(("C02:inferred-not-calculated", "inferred posting %s is not flagged calculated" % show_rows([r])[0]))
            return out
        c, q = r[2][3], r[2][0]
        if c in got:
            out.append(("C02:inferred-duplicate", "two inferred postings in commodity %s" % c))
            return out
        got[c] = q
    nzwant = {c: q for c, q in want.items() if q != 0}
    nzgot = {c: q for c, q in got.items() if q != 0}
    if nzwant != nzgot or any(c not in want for c in got):
        out.append(("C02:elided-not-negation" if cls == "one-null" else "C02:bucket-not-negation",
                    "inferred amounts %s, exact negation of the rest is %s" %
                    ({c: str(q) for c, q in got.items()}, {c: str(q) for c, q in want.items()})))
    return out


def shrink(case, still_fails):
    """drop postings / bucket / warm-up one at a time while the same oracle failure persists"""
    cur = json.loads(json.dumps(case))
    changed = True
    guard = 0
    while changed and guard < 40:
        changed = False
        guard += 1
        cands = []
        for j in range(len(cur["xact"]["posts"])):
            c2 = json.loads(json.dumps(cur))
            del c2["xact"]["posts"][j]
            cands.append(c2)
        if cur.get("warm"):
            c2 = json.loads(json.dumps(cur)); c2["warm"] = {}; cands.append(c2)
        if cur.get("decls"):
            for j in range(len(cur["decls"]) - 1):
                c2 = json.loads(json.dumps(cur)); del c2["decls"][j]; cands.append(c2)
            if cur.get("between"):
                c2 = json.loads(json.dumps(cur)); c2["between"] = False; cands.append(c2)
        elif cur.get("bucket"):
            c2 = json.loads(json.dumps(cur)); c2["bucket"] = None; cands.append(c2)
        for j, p in enumerate(cur["xact"]["posts"]):
            if p["state"] or cur["xact"]["state"]:
                c2 = json.loads(json.dumps(cur)); c2["xact"]["state"] = 0
                for q in c2["xact"]["posts"]:
                    q["state"] = 0
                cands.append(c2)
                break
        for c2 in cands:
            if c2["xact"]["posts"] and still_fails(c2):
                cur = c2
                changed = True
                break
    return cur


def replay_obj(case, led, fps):
    return {"journal": case_text(case), "case": case, "class": classify(case),
            "cmd": "ledger -f J reg --lots --empty --format '%s'" % REG_FMT.replace("\n", "\\n"),
            "ledger": {"rc": led["rc"], "kind": led["kind"], "stderr": led["stderr"][-600:], "rows": show_rows(led["rows"])},
            "oracle": fps}


def run_cases(ctx, cases, oracle, op="xact.fin"):
    """correspondence (model vs ledger) + the given oracle on every case"""
    if not cases:
        return
    leds = vflib.pmap(run_ledger, cases)
    m1 = vflib.driver_run([model_line(c, "id") for c in cases])
    m2 = vflib.driver_run([model_line(c, "rev") for c in cases])
    for case, led, a1, a2 in zip(cases, leds, m1, m2):
        ctx.count()
        tag = case.get("tag", "?")
        cls = classify(case)
        ctx.feature("family:" + tag.split(":")[0])
        ctx.feature("class:" + str(cls))
        ctx.feature("ledger:" + led["kind"].split(":")[0])
        d = describe(case)
        ctx.feature("posts:%d" % min(d["n"], 9))
        ctx.feature("comms:%d" % len(case.get("comms", [])))
        for p in case["xact"]["posts"]:
            if p["kind"] != "real":
                ctx.feature("kind:" + p["kind"])
            if p["cost"]:
                ctx.feature("cost:" + ("@" if p["cost"]["per_unit"] else "@@"))
        if case.get("bucket"):
            ctx.feature("bucket-directive")
        if led["kind"] == "died:timeout":
            ctx.feature("ledger-timeout-not-compared")
            continue
        pm1, pm2 = parse_model(a1), parse_model(a2)
        ok1, ok2 = same_verdict(pm1, led), same_verdict(pm2, led)
        if a1 != a2:
            ctx.feature("enum-order-matters")
        if ok1 or ok2:
            ctx.traces_validated += 1
        elif half_unit_tie(case):
            ctx.feature("half-unit-tie-not-compared")
        else:
            ctx.tie_broken("corr:" + op, "model and ledger disagree on\n%s\nmodel: %s %s\nledger: %s %s" %
                           (case_text(case), pm1["kind"], show_rows(pm1["rows"]), led["kind"], show_rows(led["rows"])))
            ctx.mism.append({"journal": case_text(case), "model": a1, "ledger": {"kind": led["kind"], "rows": show_rows(led["rows"])}})
        fails = oracle(case, led)
        for fp, what in fails:
            ctx.failing.append((fp, what, case, led))
        nt = nontrivial_key(case, d)
        if nt is not None:
            ctx.nontrivial(nt)
        ctx.sample({"journal": case_text(case), "class": cls, "ledger": led["kind"], "rows": show_rows(led["rows"])[:8]}, cap=6)


def nontrivial_key(case, d):
    """non-trivial = >= 2 commodities, or a cost, or a bracketed posting, or |q| > 10^9,
    or an elided amount that is not last / faces >= 2 residual commodities"""
    posts = case["xact"]["posts"]
    big = any(p["amount"] is not None and abs(jgen.amt_q(p["amount"])) > 10 ** 9 for p in posts)
    brack = any(p["kind"] == "bvirtual" for p in posts)
    null_mid = bool(d["nulls"]) and d["nulls"][0] != len(posts) - 1
    if len(case.get("comms", [])) >= 2 or d["any_cost"] or brack or big or null_mid:
        return case_text(case)
    return None


def report_failures(ctx, oracle, limit=12):
    """shrink and report the oracle failures collected by run_cases, one per fingerprint"""
    seen = set()
    for fp, what, case, led in ctx.failing:
        if fp in seen or len(seen) >= limit:
            continue
        seen.add(fp)
        if "journal_text" in case:
            ctx.violation(fp, what, {"journal": case["journal_text"], "items": case.get("items"), "cmd": "ledger -f J bal -B --empty --limit '%s'" % LIMIT_MUST_BALANCE,
                                     "ledger": {"rc": led["rc"], "errors": led["nerr"], "stderr": led["stderr"][-600:],
                                                "stdout": led["stdout"][:600]}})
            continue

        def still(c2, fp=fp):
            if not c2["xact"]["posts"]:
                return False
            l2 = run_ledger(c2)
            return any(f == fp for f, _ in oracle(c2, l2))
        small = shrink(case, still)
        l2 = run_ledger(small)
        fps = oracle(small, l2)
        what2 = next((w for f, w in fps if f == fp), what)
        ctx.violation(fp, what2, replay_obj(small, l2, [f for f, _ in fps]))


# ---------------------------------------------------------------------------
# boundary streams


def boundary_cases(rng):
    """edges of every comparison / branch of finalize: residual of exactly one
    display unit, exactly half a unit and one step to either side of it, zero
    residual through costs, null posting first / last, costs next to the null
    posting, one posting with a bucket, exactly two commodities (with / without
    cost, same / opposite sign, zero-sum third commodity), bracketed-only and
    virtual-only transactions, 1 and 2 and 3 residual commodities for the fill."""
    g = TGen(rng)
    out = []

    def add(ps, tag, **kw):
        out.append(g.case(ps, "edge:" + tag, **kw))

    for c in [CMAP["$"], CMAP["EUR"], CMAP["AAA"], CMAP["BTC"], CMAP["XY"]]:
        u = F(1, 10 ** c.dec)
        other = CMAP["kWh"] if c.name != "kWh" else CMAP["EUR"]
        base = F(rng.randint(1, 10 ** 6), 10 ** c.dec)
        # explicit residuals of k display units, k = 0, 1, -1
        for k in (0, 1, -1):
            add([post("A", "real", jgen.amt(base, c)), post("B", "real", jgen.amt(-base + k * u, c))], "unit%+d" % k)
            add([post("A", "real", jgen.amt(base, c)), post("B", "bvirtual", jgen.amt(-base + k * u, c))], "unit-bracket%+d" % k)
        # residual around half a display unit, produced by a per-unit cost with one more decimal
        for num, tag in ((4, "below-half"), (5, "half"), (6, "above-half"), (10, "one"), (14, "1.4"), (15, "1.5"), (0, "zero")):
            price = F(10 + num, 10 ** (c.dec + 1))          # e.g. 1.04 units-per-one .. the extra digit is the residual
            p = post("A", "real", jgen.amt(F(1), other, 0))
            p["cost"] = dict(jgen.amt(price, c, c.dec + 1), per_unit=True)
            add([p, post("B", "real", jgen.amt(-F(1, 10 ** c.dec), c))], "cost-" + tag)
            p2 = post("A", "real", jgen.amt(F(-1), other, 0))
            p2["cost"] = dict(jgen.amt(price, c, c.dec + 1), per_unit=True)
            add([p2, post("B", "real", jgen.amt(F(1, 10 ** c.dec), c))], "cost-neg-" + tag)
        # the same with a display precision raised by an earlier transaction: now every extra digit counts
        p = post("A", "real", jgen.amt(F(1), other, 0))
        p["cost"] = dict(jgen.amt(F(104, 10 ** (c.dec + 1)), c, c.dec + 1), per_unit=True)
        add([p, post("B", "real", jgen.amt(-F(1, 10 ** c.dec), c))], "cost-below-half-warm", warm={c.name: c.dec + 1})
        # @@ total cost, positive and negative amounts
        for sgn in (1, -1):
            p = post("A", "real", jgen.amt(F(3 * sgn), other, 0))
            p["cost"] = dict(jgen.amt(base, c), per_unit=False)
            add([p, post("B", "real", jgen.amt(-sgn * base, c))], "total-cost")
            add([dict(p), post("B", "real", jgen.amt(-sgn * base + u, c))], "total-cost-off")
            add([dict(p), post("B", "real", None)], "total-cost-elided")
    # null posting first / last / middle, 1..3 residual commodities, costs on the neighbours
    cs = [CMAP["EUR"], CMAP["$"], CMAP["AAA"]]
    for ncomm in (1, 2, 3):
        others = []
        for j in range(ncomm):
            others.append(post("Acc:%d" % j, "real" if j != 1 else "bvirtual", jgen.amt(g.quantity(cs[j], mag=2), cs[j])))
        for pos in range(len(others) + 1):
            for nk in ("real", "bvirtual"):
                ps = [dict(p) for p in others]
                ps.insert(pos, post("Acc:N", nk, None))
                add(ps, "null-pos")
        # cost on the neighbours of the null posting
        ps = [dict(p) for p in others]
        ps[0]["cost"] = dict(jgen.amt(F(5, 4), CMAP["BTC"], 2), per_unit=True)
        ps.insert(1, post("Acc:N", "real", None))
        add(ps, "null-cost-before")
        ps = [dict(p) for p in others]
        ps[-1] = dict(ps[-1]); ps[-1]["kind"] = "real"
        ps[-1]["cost"] = dict(jgen.amt(F(7), CMAP["kWh"], 0), per_unit=False)
        ps.insert(len(ps) - 1, post("Acc:N", "real", None))
        add(ps, "null-cost-after")
    # zero-sum commodity next to a non-zero one, with an elided posting (a 0 posting is generated)
    add([post("A", "real", amt(5, "AAA")), post("B", "real", amt(-5, "AAA")), post("C", "real", amt(3, "EUR")),
         post("N", "real", None)], "null-zero-entry")
    add([post("A", "real", amt(5, "AAA")), post("B", "real", amt(-5, "AAA")), post("N", "real", None)], "null-zero-only")
    # one posting: bucket / no bucket / virtual / bracketed / zero amount / with cost
    for k in ("real", "bvirtual", "virtual"):
        for b in (BUCKET, None):
            add([post("A", k, amt(F(25, 2), "EUR"))], "single", bucket=b)
            add([post("A", k, amt(0, "EUR"))], "single-zero", bucket=b)
            p = post("A", k, amt(2, "AAA")); p["cost"] = dict(jgen.amt(F(3, 2), CMAP["$"], 2), per_unit=True)
            add([p], "single-cost", bucket=b)
    add([post("A", "real", None)], "single-null", bucket=BUCKET)
    # two postings + bucket: the bucket must not be used
    add([post("A", "real", amt(1, "EUR")), post("B", "real", amt(-1, "EUR"))], "two-posts-bucket", bucket=BUCKET)
    add([post("A", "real", amt(1, "EUR")), post("B", "real", amt(1, "EUR"))], "two-posts-bucket-off", bucket=BUCKET)
    # exactly two commodities
    for sa, sb in ((1, -1), (1, 1), (-1, -1), (-1, 1)):
        add([post("A", "real", amt(sa * 10, "EUR")), post("B", "real", amt(F(sb * 1234, 100), "$"))], "two-comm")
        add([post("A", "bvirtual", amt(sa * 10, "EUR")), post("B", "real", amt(F(sb * 1234, 100), "$")),
             post("C", "real", amt(sa * 5, "EUR"))], "two-comm-3posts")
    add([post("A", "real", amt(10, "EUR")), post("B", "real", amt(-10, "EUR")), post("C", "real", amt(1, "$"))], "two-comm-one-zero")
    add([post("A", "real", amt(10, "EUR")), post("B", "real", amt(-3, "$")), post("C", "real", amt(2, "AAA"))], "three-comm")
    add([post("V", "virtual", amt(7, "AAA")), post("A", "real", amt(10, "EUR")), post("B", "real", amt(-3, "$"))], "two-comm-virtual-first")
    p = post("V", "virtual", amt(7, "AAA")); p["cost"] = dict(jgen.amt(F(2), CMAP["BTC"], 0), per_unit=True)
    add([p, post("A", "real", amt(10, "EUR")), post("B", "real", amt(-3, "$"))], "two-comm-virtual-cost")
    add([post("Z", "real", amt(0, "AAA")), post("A", "real", amt(10, "EUR")), post("B", "real", amt(-3, "$"))], "two-comm-zero-top")
    # bracketed-only / virtual-only / mixed real+bracketed sharing one residual
    add([post("A", "bvirtual", amt(10, "EUR")), post("B", "bvirtual", amt(-10, "EUR"))], "bracket-only")
    add([post("A", "bvirtual", amt(10, "EUR")), post("B", "bvirtual", amt(-9, "EUR"))], "bracket-only-off")
    add([post("A", "bvirtual", amt(10, "EUR")), post("B", "bvirtual", None)], "bracket-only-null")
    add([post("A", "virtual", amt(10, "EUR")), post("B", "virtual", amt(-9, "EUR"))], "virtual-only")
    add([post("A", "real", amt(10, "EUR")), post("B", "bvirtual", amt(-4, "EUR")), post("C", "real", amt(-6, "EUR"))], "real+bracket")
    add([post("A", "real", amt(10, "EUR")), post("B", "bvirtual", amt(-4, "EUR")), post("C", "real", None)], "real+bracket-null")
    add([post("A", "real", amt(10, "EUR")), post("V", "virtual", amt(-4, "EUR")), post("C", "real", amt(-6, "EUR"))], "real+virtual-off")
    # two nulls: adjacent, apart, mixed kinds, accounts ending in a digit
    add([post("A", "real", amt(1, "EUR")), post("B", "real", None), post("C", "real", None)], "two-nulls")
    add([post("B", "real", None), post("A", "real", amt(1, "EUR")), post("C", "bvirtual", None)], "two-nulls-apart")
    add([post("B2", "real", None), post("A", "real", amt(1, "EUR")), post("C", "real", None)], "two-nulls-digit")
    add([post("B", "real", None), post("V", "virtual", None), post("A", "real", amt(1, "EUR"))], "null+virtual-null")
    # the other postings cancel exactly in every commodity (1, 2, 3 commodities), interleaved / grouped,
    # elided posting first / middle / last; some commodities cancel and others do not; no-null and
    # two-null controls.  (balance += keeps a cancelled commodity as a zero entry.)
    ccs = [("$", F(10)), ("EUR", F(5)), ("AAA", F(7))]
    for ncomm in (1, 2, 3):
        use = ccs[:ncomm]
        plus = [post("P:%s" % c, "real", amt(q, c)) for c, q in use]
        minus = [post("M:%s" % c, "real", amt(-q, c)) for c, q in use]
        orders = {"interleaved": plus + minus,
                  "grouped": [p for pair in zip(plus, minus) for p in pair],
                  "reversed": plus + minus[::-1]}
        for oname, base in orders.items():
            n = len(base)
            for pos in sorted({0, 1, n // 2, n - 1, n}):
                for nk in ("real", "bvirtual"):
                    ps = [dict(p) for p in base]
                    ps.insert(pos, post("Acc:N", nk, None))
                    add(ps, "cancel-%s-%dc-null" % (oname, ncomm))
            add([dict(p) for p in base], "cancel-%s-%dc-nonull" % (oname, ncomm))
            ps = [dict(p) for p in base]
            ps.insert(0, post("Acc:N", "real", None)); ps.append(post("Acc:M", "real", None))
            add(ps, "cancel-%s-%dc-twonull" % (oname, ncomm))
            # some cancel, one does not
            for pos in (0, n // 2, n + 1):
                ps = [dict(p) for p in base]
                ps.insert(min(1, len(ps)), post("X", "real", amt(F(3, 2), "kWh")))
                ps.insert(pos, post("Acc:N", "real", None))
                add(ps, "cancel-%s-%dc-partial-null" % (oname, ncomm))
            ps = [dict(p) for p in base]
            ps.insert(1, post("X", "real", amt(F(3, 2), "kWh")))
            add(ps, "cancel-%s-%dc-partial-nonull" % (oname, ncomm))
        # [bracketed] and real postings cancel each other
        ps = [dict(p) for p in plus] + [dict(p, kind="bvirtual") for p in minus] + [post("Acc:N", "real", None)]
        add(ps, "cancel-bracket-%dc-null" % ncomm)
    # cancellation through costs: the COST commodity cancels
    p1 = post("A", "real", amt(4, "AAA")); p1["cost"] = dict(jgen.amt(F(5, 2), CMAP["$"], 2), per_unit=True)
    p2 = post("C", "real", amt(3, "kWh")); p2["cost"] = dict(jgen.amt(F(6), CMAP["EUR"], 2), per_unit=False)
    for pos in (0, 2, 4):
        ps = [dict(p1), dict(p2), post("B", "real", amt(-10, "$")), post("D", "real", amt(-6, "EUR"))]
        ps.insert(pos, post("Acc:N", "real", None))
        add(ps, "cancel-cost-null")
    add([dict(p1), dict(p2), post("B", "real", amt(-10, "$")), post("D", "real", amt(-6, "EUR"))], "cancel-cost-nonull")
    # magnitudes
    for e in (20, 15, 9):
        q = F(10 ** e) + F(1, 100)
        add([post("A", "real", amt(q, "EUR")), post("B", "real", amt(-q, "EUR"))], "big")
        add([post("A", "real", amt(q, "EUR")), post("B", "real", amt(-q + F(1, 100), "EUR"))], "big-off")
        add([post("A", "real", amt(q, "EUR")), post("B", "real", None)], "big-null")
    add([post("A", "real", jgen.amt(F(1, 10 ** 8), CMAP["BTC"])), post("B", "real", jgen.amt(-F(1, 10 ** 8), CMAP["BTC"]))], "tiny")
    add([post("A", "real", jgen.amt(F(2, 10 ** 8), CMAP["BTC"])), post("B", "real", jgen.amt(-F(1, 10 ** 8), CMAP["BTC"]))], "tiny-off")
    # default-account declarations: every spelling alone, every ordered pair and some triples of spellings
    # (the LAST one wins), with / without a transaction between them, then one posting; and the control with
    # an elided posting (the bucket is not used)
    def decl_case(decls, between, control=False, cost=False):
        if control:
            ps = [post("Expenses:Rent", "real", amt(700, "EUR")), post("Liabilities:Card", "real", None)]
        else:
            p = post("Expenses:Rent", "real", amt(700, "EUR"))
            if cost:
                p["cost"] = dict(jgen.amt(F(11, 10), CMAP["$"], 2), per_unit=True)
            ps = [p]
        c = g.case(ps, "edge:decls-%s%s%s" % ("+".join(h for h, _ in decls), "-between" if between else "", "-control" if control else ""),
                   bucket=decls[-1][1])
        c["decls"] = decls
        c["between"] = between
        return c
    for h in BUCKET_HOWS:
        out.append(decl_case([(h, "Assets:Cash")], False))
        out.append(decl_case([(h, "Assets:Cash")], False, cost=True))
        out.append(decl_case([(h, "Assets:Cash")], False, control=True))
    for h1 in BUCKET_HOWS:
        for h2 in BUCKET_HOWS:
            for between in (False, True):
                out.append(decl_case([(h1, "Assets:Cash"), (h2, "Assets:Bank")], between, cost=between))
            out.append(decl_case([(h1, "Assets:Cash"), (h2, "Assets:Bank")], True, control=True))
            out.append(decl_case([(h1, "Assets:Cash"), (h2, "Assets:Cash")], False))
            for h3 in BUCKET_HOWS:
                out.append(decl_case([(h1, "Assets:Cash"), (h2, "Assets:Bank"), (h3, "Equity:Opening")], h3 == "account"))
    out.append(decl_case([("A", "Assets:Cash"), ("account", "Assets:Bank"), ("bucket", "Assets:Cash")], True))
    out += lot_boundary_cases(g)
    return out


def lot_boundary_cases(g):
    """lots: `{price}`, `{{total}}`, `{=fixed}`, `[date]`, `(tag)` with / without `@` / `@@`; bought and sold at,
    above and below the lot price, with the gain posted, missing, or absorbed by an elided posting; several lots
    of one commodity next to an elided posting (order of the inferred postings); lot price in another commodity
    than the cost; (virtual) lot postings; implicit exchange against a lot; sub-unit lot prices."""
    out = []
    d0 = jgen.day_of(2019, 1, 1)

    def la(q, c, price=None, pc="$", pdec=2, total=False, fixated=False, date=None, tag=""):
        a = amt(q, c)
        a["lot"] = {"price": jgen.amt(F(price), CMAP[pc], pdec) if price is not None else None, "total": total,
                    "fixated": fixated, "date": date, "tag": tag}
        return a

    def cost(p, q, c="$", dec=2, per_unit=True):
        p = dict(p)
        p["cost"] = dict(jgen.amt(F(q), CMAP[c], dec), per_unit=per_unit)
        return p

    def add(ps, tag, **kw):
        out.append(g.case(ps, "lot-edge:" + tag, **kw))

    P = post
    for sgn in (1, -1):
        q = 10 * sgn
        add([P("A", "real", la(q, "AAA", 5)), P("B", "real", None)], "nocost-null")
        add([P("B", "real", None), P("A", "real", la(q, "AAA", 5))], "nocost-null-first")
        add([P("A", "real", la(q, "AAA", 5)), P("B", "real", la(-q, "AAA", 5))], "nocost-same-lot")
        add([P("A", "real", la(q, "AAA", 5)), P("B", "real", la(-q, "AAA", 6))], "nocost-other-lot")
        add([P("A", "real", la(q, "AAA", 5)), P("B", "real", amt(-q, "AAA"))], "nocost-vs-plain")
        add([P("A", "real", la(q, "AAA", 5)), P("B", "real", amt(-5 * q, "$"))], "nocost-implicit-at-lot-price")
        add([P("A", "real", la(q, "AAA", 5)), P("B", "real", amt(-6 * q, "$"))], "nocost-implicit-off-lot-price")
        for cq, name in ((5, "at"), (7, "above"), (3, "below")):
            add([cost(P("A", "real", la(q, "AAA", 5)), cq), P("B", "real", amt(-cq * q, "$"))], "cost-%s-nogain" % name)
            add([cost(P("A", "real", la(q, "AAA", 5)), cq), P("B", "real", amt(-cq * q, "$")),
                 P("G", "real", amt((cq - 5) * q, "$"))], "cost-%s-gain" % name)
            add([cost(P("A", "real", la(q, "AAA", 5)), cq), P("B", "real", amt(-cq * q, "$")), P("G", "real", None)],
                "cost-%s-gain-elided" % name)
            add([cost(P("A", "real", la(q, "AAA", 5)), cq), P("B", "real", None)], "cost-%s-null" % name)
            add([cost(P("A", "real", la(q, "AAA", 5)), cq * abs(q), per_unit=False), P("B", "real", None)], "totalcost-%s-null" % name)
            add([cost(P("A", "virtual", la(q, "AAA", 5)), cq), P("B", "real", amt(3, "$")), P("C", "real", amt(-3, "$"))],
                "virtual-lot-%s" % name)
            add([cost(P("A", "bvirtual", la(q, "AAA", 5)), cq), P("B", "real", None)], "bracket-lot-%s" % name)
        add([cost(P("A", "real", la(q, "AAA", 50, total=True)), 50, per_unit=False), P("B", "real", None)], "total-lot")
        add([cost(P("A", "real", la(q, "AAA", 50, total=True)), 7), P("B", "real", None)], "total-lot-gain")
        add([P("A", "real", la(q, "AAA", 50, total=True)), P("B", "real", None)], "total-lot-nocost")
        add([P("A", "real", la(q, "AAA", 5, fixated=True)), P("B", "real", None)], "fixated")
        add([cost(P("A", "real", la(q, "AAA", 5, fixated=True)), 6), P("B", "real", None)], "fixated-cost")
        add([cost(P("A", "real", la(q, "AAA", date=d0)), 5), P("B", "real", None)], "date-only-cost")
        add([P("A", "real", la(q, "AAA", date=d0)), P("B", "real", None)], "date-only")
        add([cost(P("A", "real", la(q, "AAA", tag="mytag")), 5), P("B", "real", None)], "tag-cost")
        add([P("A", "real", la(q, "AAA", tag="lotx")), P("B", "real", amt(-q, "AAA"))], "tag-vs-plain")
        add([cost(P("A", "real", la(q, "AAA", 5, pc="EUR")), 7), P("B", "real", None)], "price-other-comm")
        add([cost(P("A", "real", la(q, "AAA", 5, date=d0, tag="t1")), 7), P("B", "real", amt(-7 * q, "$")),
             P("G", "real", amt(2 * q, "$"))], "full-annotation-gain")
        add([cost(P("A", "real", la(3 * sgn, "AAA", "5.123", pdec=3)), "5.123", dec=3), P("B", "real", amt(F("-15.37") * sgn, "$"))],
            "subunit-lot")
        add([cost(P("A", "real", la(3 * sgn, "AAA", "5.123", pdec=3)), "5.124", dec=3), P("B", "real", amt(F("-15.37") * sgn, "$"))],
            "subunit-lot-gain")
        add([cost(P("A", "real", amt(q, "AAA")), 5), P("B", "real", None)], "plain-cost")
    # several lots of one commodity next to an elided posting: order of the inferred postings
    multi = [P("A", "real", la(10, "AAA", 5, date=d0 + 31)), P("A", "real", la(5, "AAA", 6)), P("A", "real", la(5, "AAA", 5, date=d0, tag="x")),
             P("A", "real", la(5, "AAA", 5, date=d0)), P("A", "real", la(2, "AAA", tag="zz")), P("A", "real", amt(3, "AAA")),
             P("A", "real", la(1, "AAA", 6, pc="EUR")), P("A", "real", la(1, "AAA", 7, pc="EUR")), P("A", "real", la(1, "AAA", date=d0 - 300))]
    for pos in (0, 4, len(multi)):
        ps = [dict(p) for p in multi]
        ps.insert(pos, P("B", "real", None))
        add(ps, "multi-lot-null")
    add([dict(p) for p in reversed(multi)] + [P("B", "bvirtual", None)], "multi-lot-null-reversed")
    # selling two lots at once with the gain elided / posted
    add([cost(P("A", "real", la(-10, "AAA", 5, date=d0)), 7), cost(P("A", "real", la(-4, "AAA", 6, date=d0 + 31)), 7),
         P("Cash", "real", amt(98, "$")), P("Gains", "real", None)], "sell-two-lots")
    add([cost(P("A", "real", la(-10, "AAA", 5, date=d0)), 7), cost(P("A", "real", la(-4, "AAA", 6, date=d0 + 31)), 7),
         P("Cash", "real", amt(98, "$")), P("Gains", "real", amt(-24, "$"))], "sell-two-lots-explicit")
    add([cost(P("A", "real", la(-10, "AAA", 5, date=d0)), 7), cost(P("A", "real", la(-4, "AAA", 6, date=d0 + 31)), 7),
         P("Cash", "real", amt(98, "$")), P("Gains", "real", amt(-23, "$"))], "sell-two-lots-off")
    # two nulls / bucket next to lots
    add([P("A", "real", la(10, "AAA", 5)), P("B", "real", None), P("C", "real", None)], "lot-two-nulls")
    add([P("A", "real", la(10, "AAA", 5))], "lot-single-bucket", bucket=BUCKET)
    add([cost(P("A", "real", la(10, "AAA", 5)), 7)], "lot-cost-single-bucket", bucket=BUCKET)
    return out


# ---------------------------------------------------------------------------
# journal level


def journal_classes(items):
    """class of every transaction of a journal under the precision / bucket in force when it is read"""
    env = {}
    bucket = None
    out = []
    for it in items:
        kind, v = it[0], it[1]
        if kind == "bucket":
            bucket = v
            continue
        case = {"xact": v, "bucket": bucket, "warm": dict(env)}
        out.append(classify(case))
        env = env_after(case)
    return out


def zero_total(t):
    return all(q == 0 for q in t.values())


def run_journals(ctx, journals):
    """journals: list of item lists. Model `journal.fin` vs ledger (error count, rows, grand total at cost),
    and the C01 journal oracle: an all-exact journal is accepted and its grand total of balancing postings at
    cost is exactly zero; a journal containing an unbalanced transaction prints no report and exits non-zero."""
    if not journals:
        return
    leds = vflib.pmap(run_ledger_journal, journals)
    m1 = vflib.driver_run([journal_model_line(it, "id") for it in journals])
    m2 = vflib.driver_run([journal_model_line(it, "rev") for it in journals])
    for items, led, a1, a2 in zip(journals, leds, m1, m2):
        ctx.count()
        ctx.feature("journal")
        nx = len([1 for it in items if it[0] == "xact"])
        ctx.feature("journal-xacts", nx)
        if led["kind"] == "died:timeout":
            ctx.feature("ledger-timeout-not-compared")
            continue
        classes = journal_classes(items)
        pm = [parse_journal_model(a1), parse_journal_model(a2)]
        text = led["text"]
        reg_total = None
        if led["rc"] == 0:
            rc1, out1, err1 = led["extra"][0]
            lines = [l for l in out1.split("\n") if l]
            reg_total = parse_vr_balance(lines[-1]) if lines else {}
        agree = False
        for m in pm:
            if m["kind"] != "ok":
                continue
            if m["errors"] > 0:
                if led["rc"] not in (0, None) and led["nerr"] == m["errors"] and not led["stdout"].strip():
                    agree = True
            else:
                if led["rc"] == 0 and m["rows"] == led["rows"] and reg_total == m["total"]:
                    agree = True
        if agree:
            ctx.traces_validated += 1
        else:
            ties = any(half_unit_tie({"xact": it[1], "warm": {}}) for it in items if it[0] == "xact")
            if ties:
                ctx.feature("half-unit-tie-not-compared")
            else:
                ctx.tie_broken("corr:journal.fin", "model and ledger disagree on\n%s\nmodel: %s\nledger: rc=%s nerr=%s total=%s" %
                               (text, a1[:400], led["rc"], led["nerr"], reg_total))
                ctx.mism.append({"journal": text, "model": a1[:2000], "ledger": {"rc": led["rc"], "nerr": led["nerr"],
                                 "total": str(reg_total), "stderr": led["stderr"][-400:]}})
        # oracle
        bad = [c for c in classes if c in ("off", "two-nulls")]
        good = all(c in ("exact", "one-null", "bucket") for c in classes)
        if bad:
            ctx.feature("journal-with-rejects")
            if led["rc"] == 0 or led["stdout"].strip() or led["nerr"] < len(bad):
                ctx.failing.append(("C01:journal-reject", "a journal with %d unbalanced / doubly elided transactions gives rc=%s, %d errors, %d bytes of report" %
                                    (len(bad), led["rc"], led["nerr"], len(led["stdout"])),
                                    {"journal_text": text, "items": items}, led))
        elif good:
            ctx.feature("journal-all-exact")
            tots = []
            if led["rc"] != 0:
                ctx.failing.append(("C01:journal-balanced-rejected", "a journal of exactly balanced transactions is rejected",
                                    {"journal_text": text, "items": items}, led))
            else:
                tots.append(("reg -B", reg_total))
                for k in (1, 2):
                    rc2, out2, err2 = led["extra"][k]
                    tl = [l for l in out2.split("\n") if l.startswith("T|")]
                    rl = [l for l in out2.split("\n") if l.startswith("R|")]
                    if k == 2 and any(p["kind"] == "bvirtual" for it in items if it[0] == "xact" for p in it[1]["posts"]):
                        continue      # --real leaves [bracketed] postings out: not the property's total
                    if tl:
                        f = tl[-1].split("|")
                        tots.append(("bal -B total", parse_vr_balance(f[1])))
                        shown = f[2].strip()
                        if shown not in ("0", ""):
                            ctx.failing.append(("C01:total-shows-nonzero", "bal -B grand total shows %r" % shown,
                                                {"journal_text": text, "items": items}, led))
                    elif len(rl) == 1:
                        tots.append(("bal -B single", parse_vr_balance(rl[0].split("|")[2])))
                for name, t in tots:
                    if t is None or not zero_total(t):
                        ctx.failing.append(("C01:total-nonzero", "%s of an all-exact journal is %s" %
                                            (name, {c: str(q) for c, q in (t or {}).items()}), {"journal_text": text, "items": items}, led))
                        break
        ctx.nontrivial(text)
        ctx.sample({"journal": text[:600], "rc": led["rc"], "errors": led["nerr"], "total": str(reg_total)}, cap=8)


class MiniCtx:
    """just enough of vflib.Check to re-run a stream from a replay file"""
    def __init__(self):
        self.failing, self.mism, self.ties, self.traces_validated = [], [], [], 0


    def count(self, n=1): pass
    def feature(self, *a): pass
    def nontrivial(self, *a): pass
    def sample(self, *a, **k): pass

    def tie_broken(self, name, detail):
        self.ties.append((name, detail))


def replay_journal(items):
    """re-run a journal replay on the current binary; returns the oracle failures"""
    ctx = MiniCtx()
    items = [tuple(x) for x in items]
    run_journals(ctx, [items])
    run_bucket_journals(ctx, [items]) if all(len(it[1]["posts"]) <= 2 and it[1]["posts"][0]["account"].startswith("Exp:N")
                                             for it in items if it[0] == "xact") else None
    return [(fp, what) for fp, what, _, _ in ctx.failing], ctx.ties
