#!/usr/bin/env python3
"""Print the markdown table of kept seeded changes (seeded/*/meta.json) for DESIGN.md §15."""
import os, json, glob
ROOT = os.path.dirname(os.path.dirname(os.path.abspath(__file__)))
print("| seeded change | property | what it changes (needs to manifest) | result of the check |")
print("|---|---|---|---|")
for d in sorted(glob.glob(os.path.join(ROOT, "seeded", "*"))):
    m = json.load(open(os.path.join(d, "meta.json")))
    summ = (m.get("summary") or "").replace("\n", " ").replace("|", "/")
    need = (m.get("needs_to_manifest") or "")
    if isinstance(need, list):
        need = "; ".join(need)
    need = need.replace("\n", " ").replace("|", "/")
    print("| %s | %s | %s — *needs:* %s | %s |" % (os.path.basename(d), m.get("property"), summ[:260], need[:260],
                                                   (m.get("check_result") or "").replace("|", "/")))
