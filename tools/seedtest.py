#!/usr/bin/env python3
"""Run checks against a seeded change without touching /repo or /verif/.build:
a persistent scratch worktree (/tmp/st/wt, detached at /repo's HEAD) with its
own hooks build (/tmp/st/build) and a scratch copy of /verif (/tmp/st/verif).

  tools/seedtest.py <patch.diff> C03 [C15 ...] [--tier quick] [--seed N]
  tools/seedtest.py --clean          # remove the scratch worktree and builds

Prints each check's exit status and VIOLATION lines.  Equivalent to
`git -C /repo apply patch; ./vf check …; git -C /repo checkout -- .` but safe
to use while other runs share /verif/.build.
"""
import os, sys, subprocess, shutil, argparse

ST = "/tmp/st"
WT = ST + "/wt"
BUILD = ST + "/build"
VCOPY = ST + "/verif"
ROOT = os.path.dirname(os.path.dirname(os.path.abspath(__file__)))


def sh(cmd, **kw):
    return subprocess.run(cmd, shell=isinstance(cmd, str), **kw)


def main():
    ap = argparse.ArgumentParser()
    ap.add_argument("patch", nargs="?")
    ap.add_argument("checks", nargs="*")
    ap.add_argument("--tier", default="quick")
    ap.add_argument("--seed", default="1")
    ap.add_argument("--clean", action="store_true")
    ap.add_argument("--no-patch", action="store_true", help="run on the unmodified worktree (sanity)")
    ap.add_argument("--confirm", metavar="DEMO", help="also build guard-off, run the 428-test suite on the mutant and the demo on both binaries")
    a = ap.parse_args()
    if a.clean:
        sh("git -C /repo worktree remove --force %s; rm -rf %s" % (WT, ST))
        return 0
    os.makedirs(ST, exist_ok=True)
    if not os.path.isdir(WT):
        sh("git -C /repo worktree add --detach %s HEAD" % WT, check=True)
    head = subprocess.check_output("git -C /repo rev-parse HEAD", shell=True, text=True).strip()
    sh("git -C %s checkout -q --detach %s && git -C %s checkout -q -- . && git -C %s clean -fdq" % (WT, head, WT, WT), check=True)
    if not a.no_patch:
        r = sh("git -C %s apply %s" % (WT, os.path.abspath(a.patch)))
        if r.returncode != 0:
            print("patch does not apply")
            return 2
    if a.confirm:
        off = ST + "/off"
        if not os.path.exists(off + "/build.ninja"):
            sh("cmake -G Ninja -S %s -B %s -DCMAKE_BUILD_TYPE=RelWithDebInfo -DCMAKE_CXX_FLAGS=-Wno-error > /dev/null" % (WT, off), check=True)
        r = sh("ninja -C %s > %s/off.log 2>&1" % (off, ST))
        print("confirm: build %s" % ("ok" if r.returncode == 0 else "FAILED (see %s/off.log)" % ST))
        if r.returncode == 0:
            r = sh("cd %s && ctest -j12 --timeout 900 2>&1 | tail -3" % off, stdout=subprocess.PIPE, text=True)
            print("confirm: suite: " + " / ".join(l.strip() for l in r.stdout.splitlines() if l.strip()))
            demo = os.path.abspath(a.confirm)
            rc_clean = sh(["bash", demo, "/repo/_build/ledger"], stdout=subprocess.DEVNULL, stderr=subprocess.DEVNULL, cwd=os.path.dirname(demo)).returncode
            rc_mut = sh(["bash", demo, off + "/ledger"], stdout=subprocess.DEVNULL, stderr=subprocess.DEVNULL, cwd=os.path.dirname(demo)).returncode
            print("confirm: demo clean exit=%d mutant exit=%d" % (rc_clean, rc_mut))
    sh("rsync -a --delete --exclude .build --exclude .git --exclude replays --exclude evidence %s/ %s/" % (ROOT, VCOPY), check=True)
    env = dict(os.environ, VERIF_REPO=WT, VERIF_BUILD=BUILD, VERIF_SEED=a.seed, VERIF_TIER=a.tier)
    rc_all = {}
    for c in a.checks:
        r = sh(["./vf", "check", c, "--tier", a.tier, "--seed", a.seed], cwd=VCOPY, env=env,
               stdout=subprocess.PIPE, stderr=subprocess.STDOUT, text=True)
        lines = [l for l in r.stdout.splitlines() if l.startswith(("VIOLATION", "KNOWN-FINDING", c))]
        print("== %s exit=%d" % (c, r.returncode))
        for l in lines:
            print("   " + l[:300])
        rc_all[c] = r.returncode
    sh("git -C %s checkout -q -- . && git -C %s clean -fdq" % (WT, WT))
    return 0


if __name__ == "__main__":
    sys.exit(main())
