"""Shared machinery for every check: builds, ledger/REPL/driver runners,
Lean audit, evidence, replays, known findings.

Skeleton of a check (DESIGN §4):
  ctx = Check("C03", tier, seed)
  ctx.prepare()             # ledger hooks build + Gen regeneration + lake build + audit
  ... correspondence + oracle, using ctx.count/nontrivial/sample/feature ...
  ctx.violation(...) / ctx.tie_broken(...)
  sys.exit(ctx.finish())
"""
import os, sys, re, json, time, fcntl, hashlib, random, shutil, subprocess, tempfile, glob

ROOT = os.path.dirname(os.path.dirname(os.path.abspath(__file__)))
REPO = os.environ.get("VERIF_REPO", "/repo")
BUILD = os.path.join(ROOT, ".build")
LEAN = os.path.join(ROOT, "lean")
HOOKS = os.path.join(BUILD, "hooks")
LEDGER = os.path.join(HOOKS, "ledger")
DRIVER = os.path.join(LEAN, ".lake", "build", "bin", "driver")
GUARD = "LEDGER_VERIF"
STD_AXIOMS = {"propext", "Classical.choice", "Quot.sound"}
NCPU = os.cpu_count() or 4

sys.path.insert(0, os.path.join(ROOT, "tools"))
import extract  # noqa: E402


def log(*a):
    print(*a, file=sys.stderr, flush=True)


class Lock:
    def __init__(self, name):
        os.makedirs(BUILD, exist_ok=True)
        self.path = os.path.join(BUILD, name + ".lock")

    def __enter__(self):
        self.f = open(self.path, "w")
        fcntl.flock(self.f, fcntl.LOCK_EX)
        return self

    def __exit__(self, *a):
        fcntl.flock(self.f, fcntl.LOCK_UN)
        self.f.close()


def sh(cmd, **kw):
    return subprocess.run(cmd, stdout=subprocess.PIPE, stderr=subprocess.STDOUT, text=True, **kw)


# ---------------------------------------------------------------------------
# builds


def ensure_ledger(kind="hooks"):
    """(Re)build ledger from /repo's working tree. kind: hooks | asan.
    Returns (path to binary or None, log tail)."""
    bdir = os.path.join(BUILD, kind)
    flags = "-D" + GUARD
    extra = []
    if kind == "asan":
        flags += " -fsanitize=address,undefined -fno-sanitize-recover=undefined -fno-omit-frame-pointer -g1 -O1"
        extra = ["-DCMAKE_EXE_LINKER_FLAGS=-fsanitize=address,undefined",
                 "-DCMAKE_BUILD_TYPE=None", "-DPRECOMPILE_SYSTEM_HH=OFF"]
    else:
        extra = ["-DCMAKE_BUILD_TYPE=Release"]
    with Lock("build-" + kind):
        if not os.path.exists(os.path.join(bdir, "build.ninja")):
            r = sh(["cmake", "-G", "Ninja", "-S", REPO, "-B", bdir, "-DBUILD_LIBRARY=OFF",
                    "-DCMAKE_CXX_FLAGS=" + flags] + extra)
            if r.returncode != 0:
                return None, r.stdout[-4000:]
        r = sh(["ninja", "-C", bdir, "ledger"])
        if r.returncode != 0:
            return None, r.stdout[-6000:]
    return os.path.join(bdir, "ledger"), ""


def lake(args, timeout=3000):
    env = dict(os.environ)
    return sh(["lake"] + args, cwd=LEAN, env=env, timeout=timeout)


_lean_state = {}


def ensure_lean(modules):
    """Regenerate Gen, build driver and the given library modules.
    Returns dict: extract (name->err), driver_ok, failed {module: log}."""
    with Lock("lean"):
        ex = extract.run()
        res = {"extract": ex, "driver_ok": True, "failed": {}, "log": ""}
        r = lake(["build", "driver"])
        if r.returncode != 0:
            res["driver_ok"] = False
            res["log"] = r.stdout[-6000:]
        for m in modules:
            r = lake(["build", m])
            if r.returncode != 0:
                res["failed"][m] = r.stdout[-6000:]
    return res


def theorem_names(props_module):
    """Names of the theorems declared in a Props file (convention: declared at
    top level with their full name, e.g. `theorem C03.add_den`)."""
    path = os.path.join(LEAN, *props_module.split(".")) + ".lean"
    names = []
    with open(path, encoding="utf-8") as f:
        txt = f.read()
    txt_nc = strip_lean_comments(txt)
    for m in re.finditer(r"^\s*(?:@\[[^\]]*\]\s*)?(?:private\s+|protected\s+)?theorem\s+([^\s:({\[]+)", txt_nc, flags=re.M):
        names.append(m.group(1))
    return names


def strip_lean_comments(txt):
    out = []
    i = 0
    n = len(txt)
    depth = 0
    while i < n:
        if txt.startswith("/-", i):
            depth += 1
            i += 2
            continue
        if depth > 0 and txt.startswith("-/", i):
            depth -= 1
            i += 2
            continue
        if depth > 0:
            if txt[i] == "\n":
                out.append("\n")
            i += 1
            continue
        if txt.startswith("--", i):
            while i < n and txt[i] != "\n":
                i += 1
            continue
        if txt[i] == '"':
            j = i + 1
            while j < n and txt[j] != '"':
                if txt[j] == "\\":
                    j += 1
                j += 1
            out.append(txt[i:j + 1])
            i = j + 1
            continue
        out.append(txt[i])
        i += 1
    return "".join(out)


FORBIDDEN = re.compile(r"\bsorry\b|\badmit\b|^\s*axiom\s|\bnative_decide\b|\bbv_decide\b|implemented_by|\bunsafe\s|maxHeartbeats\s+0\b|\bdecide\s*\+native", re.M)


def audit_sources():
    """grep the Lean sources (minus comments and string literals) for forbidden constructs."""
    hits = []
    for path in glob.glob(os.path.join(LEAN, "LedgerModel", "**", "*.lean"), recursive=True) + \
            glob.glob(os.path.join(LEAN, "Driver", "*.lean")):
        with open(path, encoding="utf-8") as f:
            txt = strip_lean_comments(f.read())
        txt = re.sub(r'"(?:\\.|[^"\\])*"', '""', txt)
        for m in FORBIDDEN.finditer(txt):
            line = txt.count("\n", 0, m.start()) + 1
            hits.append("%s:%d: %s" % (os.path.relpath(path, ROOT), line, m.group(0).strip()))
    return hits


def audit_axioms(props_module, names):
    """#print axioms for each theorem; returns {name: [axioms] or None when unknown}."""
    if not names:
        return {}
    src = "import %s\nopen Ledger\n" % props_module + "".join("#print axioms %s\n" % n for n in names)
    os.makedirs(os.path.join(BUILD, "audit"), exist_ok=True)
    p = os.path.join(BUILD, "audit", props_module.replace(".", "_") + ".lean")
    with open(p, "w") as f:
        f.write(src)
    r = sh(["lake", "env", "lean", p], cwd=LEAN, timeout=900)
    out = r.stdout
    res = {n: None for n in names}
    # messages: "'X' depends on axioms: [a, b]" or "'X' does not depend on any axioms"
    def key(full):
        for n in names:
            if full == n or full.endswith("." + n):
                return n
        return full
    for m in re.finditer(r"'([^']+)' depends on axioms: \[([^\]]*)\]", out, flags=re.S):
        res[key(m.group(1))] = [a.strip() for a in m.group(2).replace("\n", " ").split(",") if a.strip()]
    for m in re.finditer(r"'([^']+)' does not depend on any axioms", out):
        res[key(m.group(1))] = []
    return res


# ---------------------------------------------------------------------------
# running ledger and the driver


def ledger_run(args, stdin=None, cwd=None, timeout=30, env=None, binary=None):
    """Run the rebuilt ledger once. Returns (rc, stdout, stderr); rc<0 = signal, rc=None = timeout."""
    e = {"PATH": "/usr/bin:/bin", "HOME": "/nonexistent", "TZ": "UTC", "LC_ALL": "C"}
    if env:
        e.update(env)
    try:
        r = subprocess.run([binary or LEDGER, "--args-only"] + list(args),
                           input=stdin, stdout=subprocess.PIPE, stderr=subprocess.PIPE,
                           cwd=cwd, env=e, timeout=timeout, text=True, errors="replace")
        return r.returncode, r.stdout, r.stderr
    except subprocess.TimeoutExpired as ex:
        return None, ex.stdout or "", ex.stderr or ""


def pmap(fn, items, workers=None):
    """Thread-pool map (each item runs a subprocess)."""
    from concurrent.futures import ThreadPoolExecutor
    with ThreadPoolExecutor(max_workers=workers or NCPU) as ex:
        return list(ex.map(fn, items))


_SENT = "@@"


def repl_batch(lines, journal_text="", extra_args=None, timeout=120):
    """Run REPL command lines (e.g. 'eval "1+2"') in one ledger process.
    Each is followed by a sentinel so outputs stay aligned even on errors.
    Returns a list of (stdout+stderr text) per line."""
    with tempfile.NamedTemporaryFile("w", suffix=".dat", delete=False) as jf:
        jf.write(journal_text)
        jpath = jf.name
    script = []
    for k, l in enumerate(lines):
        script.append(l)
        script.append('eval "%s%d"' % (_SENT, k))
    try:
        p = subprocess.run([LEDGER, "--args-only", "-f", jpath] + (extra_args or []),
                           input="\n".join(script) + "\n", stdout=subprocess.PIPE,
                           stderr=subprocess.STDOUT, text=True, timeout=timeout,
                           env={"PATH": "/usr/bin:/bin", "HOME": "/nonexistent", "TZ": "UTC", "LC_ALL": "C"})
        out = p.stdout
        rc = p.returncode
    except subprocess.TimeoutExpired as ex:
        out = (ex.stdout or b"").decode() if isinstance(ex.stdout, bytes) else (ex.stdout or "")
        rc = None
    finally:
        os.unlink(jpath)
    # strip banner
    res = []
    pos = 0
    for k in range(len(lines)):
        marker = "While parsing value expression:\n  %s%d\n" % (_SENT, k)
        i = out.find(marker, pos)
        if i < 0:
            res.append(None)  # process died before reaching this line
            continue
        res.append(out[pos:i])
        j = out.find("Error: Invalid char '@'\n", i)
        pos = j + len("Error: Invalid char '@'\n") if j >= 0 else i + len(marker)
    if res and res[0] is not None:
        # drop the banner from the first answer
        b = res[0]
        k = b.find("for details and disclaimer.\n")
        if k >= 0:
            res[0] = b[k + len("for details and disclaimer.\n"):]
    return res, rc


def repl_parallel(lines, chunk=400, **kw):
    chunks = [lines[i:i + chunk] for i in range(0, len(lines), chunk)]
    outs = pmap(lambda c: repl_batch(c, **kw), chunks)
    res = []
    for (r, rc), c in zip(outs, chunks):
        res.extend(r)
    return res


def driver_run(lines, timeout=600):
    """Feed op lines to the Lean driver; one answer line per op."""
    if not lines:
        return []
    p = subprocess.run([DRIVER], input="\n".join(lines) + "\n", stdout=subprocess.PIPE,
                       stderr=subprocess.PIPE, text=True, timeout=timeout)
    out = p.stdout.split("\n")
    if out and out[-1] == "":
        out.pop()
    if p.returncode != 0 or len(out) != len(lines):
        raise RuntimeError("driver failed rc=%s answered %d of %d: %s" % (p.returncode, len(out), len(lines), p.stderr[-2000:]))
    return out


def err_kind(text):
    """Map a ledger error message to the small enum used on both sides."""
    t = text
    if "Divide by zero" in t:
        return "divZero"
    if "with different commodities" in t and ("Adding" in t or "Subtracting" in t or "compare amounts" in t):
        return "diffComm"
    if "with multiple commodities" in t or "multiple commodities to" in t:
        return "multiComm"
    if "Transaction does not balance" in t:
        return "unbalanced"
    if "Only one posting with null amount allowed" in t:
        return "two-nulls"
    if "Balance assertion off by" in t:
        return "assert-off"
    if re.search(r"Error: Cannot (add|subtract|multiply|divide|compare|negate|abs|convert)", t):
        return "cannot"
    if "Error:" in t:
        return "other"
    return None


# ---------------------------------------------------------------------------
# known findings


def load_known():
    p = os.path.join(ROOT, "known_findings.json")
    if not os.path.exists(p):
        return []
    with open(p) as f:
        return json.load(f).get("findings", [])


# ---------------------------------------------------------------------------


class Check:
    def __init__(self, pid, tier="quick", seed=None, props_module=None, trusted=None, level="proof"):
        self.pid = pid
        self.tier = tier or os.environ.get("VERIF_TIER", "quick")
        self.seed = int(seed if seed is not None else os.environ.get("VERIF_SEED", "1"))
        self.rng = random.Random((self.seed << 8) ^ int(hashlib.sha256(pid.encode()).hexdigest()[:8], 16))
        self.t0 = time.time()
        self.props_module = props_module or "LedgerModel.Props." + pid
        self.level = level
        self.evals = 0
        self.nontriv = set()
        self.samples = []
        self.features = {}
        self.violations = []      # (fingerprint, what, replay path, found_input)
        self.known_hits = []
        self.ties_broken = []     # (name, detail)
        self.obligations = []
        self.discharged = []
        self.axioms = {}
        self.traces_validated = 0
        self.extra_cov = {}
        self.assumptions = []
        self.trusted = trusted or []
        self.exhaustive = None
        self.rule = ""
        self.known = [k for k in load_known() if k.get("property") == pid]
        self.lean_ok = True

    # -- preparation --------------------------------------------------------
    def prepare(self, need_ledger=True, extra_modules=()):
        if need_ledger:
            path, lg = ensure_ledger()
            if path is None:
                log(lg)
                self.tie_broken("build:ledger", "ledger no longer builds with -D%s:\n%s" % (GUARD, lg[-1500:]))
                return False
        res = ensure_lean([self.props_module] + list(extra_modules))
        for name, err in res["extract"].items():
            if err:
                self.tie_broken("extract:" + name, err)
        if not res["driver_ok"]:
            self.tie_broken("lean:driver", res["log"][-3000:])
            self.lean_ok = False
        for m, lg in res["failed"].items():
            self.tie_broken("lean:" + m, lg[-3000:])
        hits = audit_sources()
        if hits:
            self.tie_broken("audit:forbidden", "\n".join(hits))
        names = theorem_names(self.props_module)
        self.obligations = names
        if self.props_module in res["failed"]:
            self.discharged = []
        else:
            self.axioms = audit_axioms(self.props_module, names)
            for n in names:
                ax = self.axioms.get(n)
                if ax is None:
                    self.tie_broken("audit:axioms:" + n, "could not print axioms")
                elif set(ax) - STD_AXIOMS:
                    self.tie_broken("audit:axioms:" + n, "non-standard axioms: %s" % ax)
                else:
                    self.discharged.append(n)
            if self.tier == "thorough":
                r = sh(["lake", "env", "leanchecker", self.props_module], cwd=LEAN, timeout=3000)
                self.extra_cov["leanchecker"] = "ok" if r.returncode == 0 else r.stdout[-500:]
                if r.returncode != 0:
                    self.tie_broken("audit:leanchecker", r.stdout[-1500:])
        return res["driver_ok"]

    # -- coverage accounting --------------------------------------------------
    def count(self, n=1):
        self.evals += n

    def nontrivial(self, key):
        self.nontriv.add(hashlib.sha1(repr(key).encode()).hexdigest()[:16])

    def sample(self, obj, cap=6):
        if len(self.samples) < cap:
            self.samples.append(obj)

    def feature(self, name, n=1):
        self.features[name] = self.features.get(name, 0) + n

    # -- outcomes -------------------------------------------------------------
    def _write_replay(self, tag, obj):
        d = os.path.join(ROOT, "replays")
        os.makedirs(d, exist_ok=True)
        h = hashlib.sha1(json.dumps(obj, sort_keys=True, default=str).encode()).hexdigest()[:10]
        p = os.path.join(d, "%s-%s-%s.json" % (self.pid, re.sub(r"[^A-Za-z0-9_.-]+", "_", tag)[:40], h))
        with open(p, "w") as f:
            json.dump(obj, f, indent=1, default=str)
        return p

    def violation(self, fingerprint, what, replay, found_input=True):
        """A property failure shown on the real binary (found_input) or a broken
        obligation with no failing input. Known findings are downgraded."""
        for k in self.known:
            if k.get("status") == "finding" and k.get("fingerprint") == fingerprint:
                if fingerprint not in [h[0] for h in self.known_hits]:
                    self.known_hits.append((fingerprint, k.get("what", what)))
                return False
        if any(v[0] == fingerprint for v in self.violations):
            return True
        obj = {"property": self.pid, "fingerprint": fingerprint, "what": what,
               "failing_input_found": bool(found_input), "replay": replay,
               "seed": self.seed, "tier": self.tier}
        p = self._write_replay(fingerprint, obj)
        self.violations.append((fingerprint, what, p, found_input))
        return True

    def tie_broken(self, name, detail):
        if not any(t[0] == name for t in self.ties_broken):
            self.ties_broken.append((name, detail))

    # -- finish -----------------------------------------------------------------
    def finish(self):
        # a broken tie that no failing input explains is still a violation
        explained = set()
        for fp, what, p, found in self.violations:
            pass
        if self.ties_broken and not any(v[3] for v in self.violations):
            for name, detail in self.ties_broken:
                fp = "tie:" + name
                known = False
                for k in self.known:
                    if k.get("status") == "finding" and k.get("fingerprint") == fp:
                        known = True
                        self.known_hits.append((fp, k.get("what", name)))
                if known:
                    continue
                obj = {"property": self.pid, "fingerprint": fp,
                       "what": "proof obligation / correspondence no longer checks: " + name,
                       "failing_input_found": False, "detail": detail,
                       "seed": self.seed, "tier": self.tier}
                p = self._write_replay(fp, obj)
                self.violations.append((fp, name, p, False))
        elif self.ties_broken:
            # ties broken and a concrete failing input was found: attach tie info to evidence only
            pass
        cov = {
            "obligations": len(self.obligations),
            "discharged": len(self.discharged),
            "checker_cmd": "cd lean && lake build %s && lake env lean <#print axioms of every theorem>" % self.props_module +
                           (" && lake env leanchecker %s" % self.props_module if self.tier == "thorough" else ""),
            "trusted_base": ["Lean 4.33 kernel", "axioms: propext, Classical.choice, Quot.sound only (audited per theorem on this run)",
                             "tools/extract.py (translator of constants/tables/dispatch cells)",
                             "correspondence harness tools/ (generators, canonicaliser)",
                             "hook verif_rational prints the mpq it is given"] + self.trusted,
            "theorems": self.obligations,
            "evaluations": self.evals,
            "distinct_nontrivial": len(self.nontriv),
            "rule": self.rule,
            "samples": self.samples or [{"theorems": self.obligations[:5]}],
            "traces_validated_against_impl": self.traces_validated,
            "features": self.features,
            "ties_broken": [t[0] for t in self.ties_broken],
            "known_findings_hit": [k[0] for k in self.known_hits],
        }
        if self.exhaustive is not None:
            cov["exhaustive"] = self.exhaustive
        cov.update(self.extra_cov)
        ev = {"property_id": self.pid, "tier": self.tier, "seed": self.seed, "level": self.level,
              "coverage": cov, "assumptions": self.assumptions,
              "wall_s": round(time.time() - self.t0, 2), "violations": len(self.violations)}
        os.makedirs(os.path.join(ROOT, "evidence"), exist_ok=True)
        with open(os.path.join(ROOT, "evidence", self.pid + ".json"), "w") as f:
            json.dump(ev, f, indent=1, default=str)
        for fp, what in self.known_hits:
            print("KNOWN-FINDING: property=%s %s [%s]" % (self.pid, what, fp))
        for fp, what, p, found in self.violations:
            rel = os.path.relpath(p, ROOT)
            if found:
                print("VIOLATION property=%s replay=%s" % (self.pid, rel))
            else:
                print("VIOLATION property=%s replay=%s no-failing-input-found" % (self.pid, rel))
        print("%s %s: %d/%d obligations discharged, %d evaluations (%d distinct non-trivial), %d violations, %.1fs" %
              (self.pid, self.tier, len(self.discharged), len(self.obligations), self.evals,
               len(self.nontriv), len(self.violations), time.time() - self.t0))
        sys.stdout.flush()
        return 1 if self.violations else 0
